#!/bin/bash
# usage: dbg.sh Cxx ms [nviol] [width]
/verif/target/mon/mon $1 --ms ${2:-3000} ${5} | python3 -c "
import json,sys
d=json.load(sys.stdin); d.pop('fps')
print('cases',d['cases'],'evals', d['evaluations'],'distinct',d['distinct'])
print({k:v for k,v in d['counters'].items() if not k.startswith('spelling')})
print(json.dumps(d['sig_counts'],indent=1))
for v in d['violations'][:${3:-8}]: print(v['sig'],v['case_seed'],'\n   ',v['detail'][:${4:-2500}],'\n')
print(d['harness_errors'][:3])"
