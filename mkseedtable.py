#!/usr/bin/python3
"""Regenerates the table of section 13 of DESIGN.md from /verif/seeded/*/meta.json (between the SEEDTABLE markers)."""
import json, os, re
ROOT = os.path.dirname(os.path.abspath(__file__))
rows = ["| id | property | the change (compiles, 1346-test baseline green) | needs, to show | quick check result | first signatures | strengthening needed first |",
        "|----|----------|------|------|------|------|------|"]
for d in sorted(os.listdir(os.path.join(ROOT, "seeded"))):
    m = json.load(open(os.path.join(ROOT, "seeded", d, "meta.json")))
    cb = m.get("caught_by") or {}
    if isinstance(cb, list):
        cb = {m["property"]: cb}
    sigs = "; ".join("%s: `%s`" % (p, "`, `".join(s[:2])) for p, s in cb.items()) or "—"
    esc = lambda s: s.replace("|", "\\|")
    rows.append("| %s | %s | %s | %s | %s | %s | %s |" % (d, m["property"], esc(m["summary"]), esc(m["needs_to_manifest"]), m.get("result", "?"), esc(sigs), esc(m.get("strengthened", "—"))))
p = os.path.join(ROOT, "DESIGN.md")
s = open(p).read()
s = re.sub(r"(<!-- SEEDTABLE:BEGIN -->\n).*?(<!-- SEEDTABLE:END -->)", lambda mo: mo.group(1) + "\n".join(rows) + "\n" + mo.group(2), s, flags=re.S)
open(p, "w").write(s)
print(len(rows) - 2, "rows")
