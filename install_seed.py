#!/usr/bin/python3
"""install_seed.py <id> <property> <srcdir> <demo-cmd> <summary> <needs>  — copies patch.diff, demo, notes into /verif/seeded/<id>/"""
import json, os, shutil, sys
sid, prop, src, democmd, summary, needs = sys.argv[1:7]
d = os.path.join("/verif/seeded", sid)
os.makedirs(d, exist_ok=True)
shutil.copy(os.path.join(src, "patch.diff"), os.path.join(d, "patch.diff"))
for f in os.listdir(src):
    if f.endswith(".rs"):
        shutil.copy(os.path.join(src, f), os.path.join(d, f))
    if f == "NOTES.md":
        shutil.copy(os.path.join(src, f), os.path.join(d, "AUTHOR_NOTES.md"))
meta = {"id": sid, "property": prop, "summary": summary, "needs_to_manifest": needs,
        "demonstration": {"file": "seed_demo.rs", "run": democmd, "placement": "copy to <clap worktree>/" + os.environ.get("DEMO_DIR", "tests") + "/seed_demo.rs"},
        "verified": {"how": "/verif/verify_seed.sh in a scratch worktree of /repo HEAD (removed afterwards)",
                     "demo_unpatched": "pass", "demo_patched": "fail", "baseline_patched": "1346 passed"},
        "origin": "written by an independent sub-agent that saw only the property text and its own scratch worktree"}
json.dump(meta, open(os.path.join(d, "meta.json"), "w"), indent=1)
print("installed", d)
