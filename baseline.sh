#!/bin/bash
# Runs the repository's pinned baseline suite (1346 tests) with any verification guard OFF.
cd /repo && CARGO_NET_OFFLINE=true cargo nextest run --workspace --no-fail-fast --tool-config-file pb:/w/lib/nextest.toml --profile pb --test-threads 16 --offline 2>&1 | tail -15
exit ${PIPESTATUS[0]}
