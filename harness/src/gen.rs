//! Generators: wild command trees, hostile argv, hostile/benign text.

use crate::core::{os, Rng};
use crate::spec::*;
use std::collections::BTreeSet;
use std::ffi::OsString;

pub const LONG_POOL: &[&str] = &[
    "alpha", "alpine", "al", "beta", "be-ta", "gamma", "delta", "color", "colour", "config",
    "verbose", "v2", "x", "out", "output", "out-put", "in", "input", "no-color", "dry-run", "été",
    "a_b", "a__b", "num", "level", "opt", "flag", "file", "force", "fo", "mode", "name", "long1",
    "h2", "help-me", "version2", "quiet", "q1", "zeta", "eta", "theta", "io", "k8s",
    // case variants of other entries
    "Alpha", "OUT", "Force",
];
pub const SHORT_POOL: &[char] = &[
    'a', 'b', 'c', 'd', 'e', 'f', 'g', 'i', 'j', 'k', 'l', 'm', 'n', 'o', 'p', 'q', 'r', 's', 't',
    'u', 'v', 'w', 'x', 'y', 'z', 'A', 'B', 'C', 'S', 'Q', 'X', '1', '2', 'é', '?', '_',
];
pub const SUB_POOL: &[&str] = &[
    "sync", "sy", "sub", "sub1", "sub-cmd", "sub_cmd", "s__b", "add", "remove", "rm", "list", "ls",
    "query", "push", "pull", "pu", "init", "in", "test", "te", "build", "bu", "été", "x", "cfg",
    "install", "inst", "run", "exec", "show", "status", "stat",
    // case variants of other entries
    "Sync", "LIST",
];

#[derive(Default, Clone)]
pub struct Used {
    pub longs: BTreeSet<String>,
    pub shorts: BTreeSet<char>,
    pub subs: BTreeSet<String>,
}

impl Used {
    pub fn long(&mut self, rng: &mut Rng) -> Option<String> {
        for _ in 0..8 {
            let l = rng.pick(LONG_POOL).to_string();
            if l != "help" && l != "version" && self.longs.insert(l.clone()) {
                return Some(l);
            }
        }
        None
    }
    pub fn short(&mut self, rng: &mut Rng) -> Option<char> {
        for _ in 0..8 {
            let c = *rng.pick(SHORT_POOL);
            if self.shorts.insert(c) {
                return Some(c);
            }
        }
        None
    }
    pub fn sub(&mut self, rng: &mut Rng) -> Option<String> {
        for _ in 0..8 {
            let l = rng.pick(SUB_POOL).to_string();
            if self.subs.insert(l.clone()) {
                return Some(l);
            }
        }
        None
    }
}

#[derive(Clone)]
pub struct WildOpts {
    pub max_args: usize,
    pub max_groups: usize,
    pub max_subs: usize,
    pub depth: usize,
    /// probability (percent) that text slots are filled
    pub texts: bool,
    pub hostile_text: bool,
    pub relations: bool,
    pub settings: bool,
    pub globals: bool,
    pub env: bool,
}

impl Default for WildOpts {
    fn default() -> Self {
        WildOpts {
            max_args: 6,
            max_groups: 2,
            max_subs: 3,
            depth: 2,
            texts: false,
            hostile_text: false,
            relations: true,
            settings: true,
            globals: true,
            env: false,
        }
    }
}

pub fn small_values(rng: &mut Rng) -> String {
    const V: &[&str] = &[
        "v", "x1", "val", "a,b", "1", "-1", "0", "", "true", "false", "yes", "é", "a=b", "-x",
        "--y", "10", "sync", "a b",
    ];
    rng.pick(V).to_string()
}

pub fn gen_vp(rng: &mut Rng) -> Option<Vp> {
    match rng.below(14) {
        0 => Some(Vp::Os),
        1 => Some(Vp::Path),
        2 => Some(Vp::Bool),
        3 => Some(Vp::Boolish),
        4 => Some(Vp::Falsey),
        5 => Some(Vp::NonEmpty),
        6 | 7 => {
            let n = rng.range(1, 4);
            let mut pvs = vec![];
            let names = ["fast", "slow", "fa", "auto", "always", "never", "é", "a-b", "x"];
            let mut used = BTreeSet::new();
            for _ in 0..n {
                let nm = rng.pick(&names).to_string();
                if !used.insert(nm.clone()) {
                    continue;
                }
                let mut aliases = vec![];
                if rng.chance(1, 4) {
                    let al = format!("{}{}", nm, rng.below(3));
                    if used.insert(al.clone()) {
                        aliases.push(al);
                    }
                }
                pvs.push(Pv {
                    name: nm,
                    aliases,
                    hide: rng.chance(1, 5),
                    help: if rng.chance(1, 3) {
                        Some("pv help".into())
                    } else {
                        None
                    },
                });
            }
            Some(Vp::Possible(pvs))
        }
        8 => Some(Vp::I64(-5, 100)),
        9 => Some(Vp::U64(0, 10)),
        10 => Some(Vp::U8(0, 255)),
        11 => Some(Vp::Str),
        _ => None,
    }
}

fn wild_arg(rng: &mut Rng, id: String, used: &mut Used, o: &WildOpts, pos_index: &mut usize) -> ArgSpec {
    let mut a = ArgSpec { id, ..Default::default() };
    let kind = rng.below(10);
    // 0..=2 positional, else option/flag
    if kind >= 3 {
        match rng.below(4) {
            0 => a.short = used.short(rng),
            1 => a.long = used.long(rng),
            _ => {
                a.short = used.short(rng);
                a.long = used.long(rng);
            }
        }
        // (likewise a long alias does not need a long)
        if (a.long.is_some() && rng.chance(1, 4)) || (a.long.is_none() && rng.chance(1, 12)) {
            // (one alias mostly; now and then a second and third one)
            for _ in 0..*rng.pick(&[1usize, 1, 1, 2, 3]) {
                if let Some(l) = used.long(rng) {
                    a.aliases.push((l, rng.coin()));
                }
            }
        }
        // (a short alias does not need a short: `--long` with `visible_short_alias('x')` is legal)
        if (a.short.is_some() && rng.chance(1, 6)) || (a.short.is_none() && rng.chance(1, 12)) {
            for _ in 0..*rng.pick(&[1usize, 1, 1, 2]) {
                if let Some(c) = used.short(rng) {
                    a.short_aliases.push((c, rng.coin()));
                }
            }
        }
    }
    if a.is_positional() {
        if rng.chance(1, 5) {
            *pos_index += 1;
            a.index = Some(*pos_index);
        } else {
            *pos_index += 1;
        }
    }
    // action
    a.action = match rng.below(12) {
        0 | 1 => None,
        2 | 3 => Some(Act::Set),
        4 | 5 => Some(Act::Append),
        6 | 7 => Some(Act::SetTrue),
        8 => Some(Act::SetFalse),
        9 | 10 => Some(Act::Count),
        _ => {
            if a.is_positional() {
                Some(Act::Append)
            } else {
                Some(rng.pick(&[Act::Help, Act::Version, Act::HelpShort, Act::HelpLong]).clone())
            }
        }
    };
    if a.is_positional() && !a.takes_values() {
        a.action = Some(if rng.coin() { Act::Set } else { Act::Append });
    }
    if a.takes_values() {
        if rng.chance(1, 2) {
            let lo = rng.below(3);
            let hi = match rng.below(5) {
                0 => usize::MAX,
                1 => lo,
                _ => lo + rng.below(4),
            };
            let hi = if hi == 0 { 1 } else { hi };
            a.num_args = Some((lo, hi));
        }
        if rng.chance(1, 5) {
            a.delim = Some(*rng.pick(&[',', ':', ';', '=']));
        }
        if rng.chance(1, 8) {
            a.terminator = Some(rng.pick(&[";", "--", "end", "-t"]).to_string());
        }
        if !a.is_positional() && rng.chance(1, 6) {
            a.require_equals = true;
        }
        if rng.chance(1, 5) {
            a.allow_hyphen = true;
        }
        if rng.chance(1, 6) {
            a.allow_negative = true;
        }
        if a.is_positional() && rng.chance(1, 8) {
            a.last = true;
        }
        if a.is_positional() && rng.chance(1, 8) {
            a.trailing_var_arg = true;
        }
        if rng.chance(1, 4) {
            a.vp = gen_vp(rng);
        }
        if rng.chance(1, 4) {
            a.defaults.push(small_values(rng));
        }
        if rng.chance(1, 6) {
            a.default_missing.push(small_values(rng));
        }
        if rng.chance(1, 5) {
            let n = rng.range(1, 3);
            a.value_names = (0..n).map(|i| format!("VN{}", i)).collect();
        }
        if rng.chance(1, 8) {
            a.ignore_case = true;
        }
    }
    if o.env && rng.chance(1, 5) {
        a.env = Some(format!("CLAPV_{}", a.id.to_uppercase()));
    }
    if rng.chance(1, 6) {
        a.required = true;
    }
    if rng.chance(1, 12) {
        a.exclusive = true;
    }
    if o.globals && !a.is_positional() && rng.chance(1, 6) {
        a.global = true;
    }
    if rng.chance(1, 8) {
        a.hide = true;
    }
    if rng.chance(1, 10) {
        a.hide_short_help = true;
    }
    if rng.chance(1, 10) {
        a.hide_long_help = true;
    }
    if rng.chance(1, 10) {
        a.next_line_help = true;
    }
    if rng.chance(1, 10) {
        a.hide_possible_values = true;
    }
    if rng.chance(1, 10) {
        a.hide_default_value = true;
    }
    if rng.chance(1, 6) {
        // (also headings spelled like the built-in ones)
        a.heading = Some(rng.pick(&["Head A", "Head B", "", "Options", "Arguments", "Commands"]).to_string());
    }
    if rng.chance(1, 8) {
        a.display_order = Some(rng.below(5));
    }
    if rng.chance(1, 8) {
        a.hint = Some(rng.below(13) as u8);
    }
    if o.texts {
        if rng.chance(2, 3) {
            a.help = Some(text(rng, o.hostile_text));
        }
        if rng.chance(1, 3) {
            a.long_help = Some(text(rng, o.hostile_text));
        }
    } else if rng.chance(1, 2) {
        a.help = Some(format!("help for {}", a.id));
    }
    a
}

fn pick_ids(rng: &mut Rng, ids: &[String], me: &str, max: usize) -> Vec<String> {
    let mut v = vec![];
    if ids.is_empty() {
        return v;
    }
    for _ in 0..rng.range(1, max) {
        let x = rng.pick(ids).clone();
        if x != me || rng.chance(1, 40) {
            if !v.contains(&x) {
                v.push(x);
            }
        }
    }
    v
}

pub fn wild_relations(rng: &mut Rng, c: &mut CmdSpec) {
    let mut ids: Vec<String> = c.args.iter().map(|a| a.id.clone()).collect();
    ids.extend(c.groups.iter().map(|g| g.id.clone()));
    let arg_ids: Vec<String> = c.args.iter().map(|a| a.id.clone()).collect();
    for a in c.args.iter_mut() {
        let me = a.id.clone();
        if rng.chance(1, 5) {
            a.conflicts = pick_ids(rng, &ids, &me, 2);
        }
        if rng.chance(1, 6) {
            a.requires = pick_ids(rng, &ids, &me, 2);
        }
        if rng.chance(1, 8) {
            let r = pick_ids(rng, &ids, &me, 1);
            for x in r {
                a.requires_ifs.push((if rng.coin() { Some(small_values(rng)) } else { None }, x));
            }
        }
        if rng.chance(1, 6) {
            // (a group id is accepted as an override target too)
            a.overrides = if rng.chance(1, 4) { pick_ids(rng, &ids, "", 2) } else { pick_ids(rng, &arg_ids, "", 2) };
        }
        if rng.chance(1, 10) {
            a.required_unless_any = pick_ids(rng, &ids, &me, 2);
        }
        if rng.chance(1, 12) {
            a.required_unless_all = pick_ids(rng, &ids, &me, 2);
        }
        if rng.chance(1, 10) {
            a.required_if_eq_any =
                pick_ids(rng, &arg_ids, &me, 2).into_iter().map(|x| (x, small_values(rng))).collect();
        }
        if rng.chance(1, 12) {
            a.required_if_eq_all =
                pick_ids(rng, &arg_ids, &me, 2).into_iter().map(|x| (x, small_values(rng))).collect();
        }
        if rng.chance(1, 8) {
            for x in pick_ids(rng, &arg_ids, &me, 1) {
                a.default_ifs.push((
                    x,
                    if rng.coin() { Some(small_values(rng)) } else { None },
                    if rng.chance(3, 4) { Some(small_values(rng)) } else { None },
                ));
            }
        }
    }
}

pub fn wild_cmd(rng: &mut Rng, o: &WildOpts, depth_left: usize, name: String, inherited: &Used) -> CmdSpec {
    let mut c = CmdSpec { name, ..Default::default() };
    let mut used = inherited.clone();
    used.subs.clear();
    // help/version flags occupy -h/-V/--help/--version by default
    let nargs = rng.below(o.max_args + 1);
    let mut pos_index = 0;
    for i in 0..nargs {
        let a = wild_arg(rng, format!("a{}", i), &mut used, o, &mut pos_index);
        c.args.push(a);
    }
    let ngroups = if c.args.is_empty() { 0 } else { rng.below(o.max_groups + 1) };
    for g in 0..ngroups {
        let ids: Vec<String> = c.args.iter().map(|a| a.id.clone()).collect();
        let mut members = pick_ids(rng, &ids, "", 3);
        members.dedup();
        c.groups.push(GroupSpec {
            id: format!("g{}", g),
            members,
            required: rng.chance(1, 3),
            multiple: rng.chance(1, 3),
            conflicts: if rng.chance(1, 5) { pick_ids(rng, &ids, "", 1) } else { vec![] },
            requires: if rng.chance(1, 6) { pick_ids(rng, &ids, "", 1) } else { vec![] },
        });
    }
    if o.relations {
        wild_relations(rng, &mut c);
    }
    if o.settings {
        for s in ALL_SETTINGS {
            let p = match s {
                Setting::Multicall => 40,
                Setting::NoBinaryName => 12,
                Setting::IgnoreErrors => 10,
                Setting::Hide => 8,
                _ => 6,
            };
            if rng.chance(1, p) {
                c.settings.push(*s);
            }
        }
        if rng.chance(1, 3) {
            c.version = Some("1.2.3".into());
        }
        if rng.chance(1, 8) {
            c.long_version = Some("1.2.3 (long)".into());
        }
    }
    if o.texts {
        if rng.chance(2, 3) {
            c.about = Some(text(rng, o.hostile_text));
        }
        if rng.chance(1, 3) {
            c.long_about = Some(text(rng, o.hostile_text));
        }
        if rng.chance(1, 4) {
            c.after_help = Some(text(rng, o.hostile_text));
        }
        if rng.chance(1, 5) {
            c.before_help = Some(text(rng, o.hostile_text));
        }
        if rng.chance(1, 6) {
            c.after_long_help = Some(text(rng, o.hostile_text));
        }
        if rng.chance(1, 6) {
            c.author = Some(text(rng, o.hostile_text));
        }
    }
    if depth_left > 0 {
        let nsubs = rng.below(o.max_subs + 1);
        // globals propagate their names downward
        let mut down = Used::default();
        for a in &c.args {
            if a.global {
                if let Some(l) = &a.long {
                    down.longs.insert(l.clone());
                }
                for (l, _) in &a.aliases {
                    down.longs.insert(l.clone());
                }
                if let Some(s) = a.short {
                    down.shorts.insert(s);
                }
                for (s, _) in &a.short_aliases {
                    down.shorts.insert(*s);
                }
            }
        }
        for l in &inherited.longs {
            down.longs.insert(l.clone());
        }
        for s in &inherited.shorts {
            down.shorts.insert(*s);
        }
        for _ in 0..nsubs {
            let Some(nm) = used.sub(rng) else { continue };
            let mut s = wild_cmd(rng, o, depth_left - 1, nm, &down);
            s.settings.retain(|x| !matches!(x, Setting::NoBinaryName | Setting::Multicall));
            if rng.chance(1, 4) {
                for _ in 0..*rng.pick(&[1usize, 1, 2, 3, 4]) {
                    if let Some(al) = used.sub(rng) {
                        // (several *visible* aliases more often than not)
                        s.aliases.push((al, rng.chance(2, 3)));
                    }
                }
            }
            if rng.chance(1, 4) {
                s.short_flag = used.short(rng);
                if s.short_flag.is_some() && rng.chance(1, 4) {
                    for _ in 0..rng.range(1, 2) {
                        if let Some(c2) = used.short(rng) {
                            s.short_flag_aliases.push((c2, rng.coin()));
                        }
                    }
                }
            }
            if rng.chance(1, 4) {
                s.long_flag = used.long(rng);
                if s.long_flag.is_some() && rng.chance(1, 4) {
                    for _ in 0..rng.range(1, 2) {
                        if let Some(l2) = used.long(rng) {
                            s.long_flag_aliases.push((l2, rng.coin()));
                        }
                    }
                }
            }
            // explicit display orders, drawn from a small range so that siblings collide (also
            // with the generated `help`, which sits at 999)
            if rng.chance(1, 6) {
                s.display_order = Some(*rng.pick(&[0usize, 1, 2, 999]));
            }
            c.subs.push(s);
        }
    }
    if c.has(Setting::Multicall) {
        // multicall requires an args-free root
        c.args.clear();
        c.groups.clear();
        c.settings.retain(|s| !matches!(s, Setting::NoBinaryName));
    }
    c
}

pub fn wild(rng: &mut Rng, o: &WildOpts) -> CmdSpec {
    // far ends of the size of a definition: now and then a deep narrow tree or a wide flat level
    let shape = rng.below(24);
    let big;
    let o = match shape {
        0 => {
            big = WildOpts { depth: o.depth + 3, max_subs: 2, ..o.clone() };
            &big
        }
        1 => {
            big = WildOpts { depth: o.depth.min(1), max_subs: o.max_subs * 3, max_args: o.max_args * 3, max_groups: o.max_groups + 2, ..o.clone() };
            &big
        }
        _ => o,
    };
    let mut c = wild_cmd(rng, o, o.depth, "prog".into(), &Used::default());
    if shape == 2 || shape == 3 {
        // far more arguments in one command than any hand-written test has (word-size boundaries)
        let n = *rng.pick(&[31usize, 32, 33, 63, 64, 65, 66, 100, 129, 260]);
        let tgt = if shape == 3 && !c.subs.is_empty() && !c.has(Setting::Multicall) { let i = rng.below(c.subs.len()); &mut c.subs[i] } else { &mut c };
        if !tgt.has(Setting::Multicall) {
            for i in 0..n {
                let mut a = ArgSpec { id: format!("many{}", i), long: Some(format!("many{}", i)), ..Default::default() };
                a.action = Some(match rng.below(4) {
                    0 => Act::Set,
                    1 => Act::Count,
                    2 => Act::Append,
                    _ => Act::SetTrue,
                });
                if rng.chance(1, 20) {
                    a.required = true;
                }
                if i > 0 && rng.chance(1, 10) {
                    a.requires.push(format!("many{}", rng.below(i)));
                }
                tgt.args.push(a);
            }
        }
    }
    if rng.chance(1, 6) {
        c.term_width = Some(rng.below(120));
    }
    if rng.chance(15, 16) {
        sanitize(&mut c);
    }
    c
}

// ---------------------------------------------------------------- text alphabets

pub const HOSTILE_FRAGS: &[&str] = &[
    "'", "\"", "\\", "`", "$(touch CANARY)", "`touch CANARY`", "${HOME}", "$HOME", "[", "]", ":", "(", ")",
    "{", "}", "{n}", ";", "|", "&", "#", "!", "%", "\n", "\n.", "\n'", ".", "'", "\\fB", "\\n", "  ", "\t",
    "世界", "e\u{301}", "\u{2018}", "\u{2019}", "\u{201A}", "\u{201B}", "\u{200d}", "<", ">", "*", "?", "~",
    "word", "text", "a", "=", ",", "@", "^", "''", "\"\"", "\\'", "\\\"", "$'", "$", "-", "--", "\r",
];

pub fn hostile_text(rng: &mut Rng) -> String {
    let n = rng.range(0, 8);
    let mut s = String::new();
    for _ in 0..n {
        if rng.chance(1, 3) {
            s.push_str(*rng.pick(&["word", "some text", "value", "x"]));
        } else {
            s.push_str(*rng.pick(HOSTILE_FRAGS));
        }
        if rng.chance(1, 3) {
            s.push(' ');
        }
    }
    s
}

pub fn benign_text(rng: &mut Rng) -> String {
    let n = rng.range(1, 5);
    let mut v = vec![];
    for _ in 0..n {
        v.push(*rng.pick(&["alpha", "bravo", "charlie", "delta", "echo", "x", "word"]));
    }
    v.join(" ")
}

pub fn text(rng: &mut Rng, hostile: bool) -> String {
    if hostile {
        hostile_text(rng)
    } else {
        benign_text(rng)
    }
}

// ---------------------------------------------------------------- hostile argv

pub const HOSTILE_TOKENS: &[&[u8]] = &[
    b"", b"-", b"--", b"--=", b"--=v", b"-=", b"-1e", b"-1.5", b"-1", b"-\xc3\xa9", b"--\xc3\xa9=\xc3\xbc",
    b"\x80", b"\xc3", b"--a\xffb", b"-a\xff", b"v\xff", b"--help", b"-h", b"-V", b"--version", b"help",
    b"---", b"---x", b"-x=", b"--x=", b"a=b", b"=", b"x", b"val", b"1", b"0", b"true", b"a,b", b",", b";",
    b"end", b"-t", b"--no-such-flag-with-a-very-long-name-0123456789", b"-\xff", b"--\xff", b"-h\xff",
    b"--help=1", b"-hx", b"-Vx", b"--al", b"--a", b"-ab", b"-abc", b"--color=always", b" ", b"a b",
];

pub struct LevelNames {
    pub longs: Vec<String>,
    pub shorts: Vec<char>,
    pub subs: Vec<String>,
    pub terms: Vec<String>,
    pub delims: Vec<char>,
}

pub fn level_names(c: &CmdSpec, inherited: &LevelNames) -> LevelNames {
    let mut n = LevelNames {
        longs: inherited.longs.clone(),
        shorts: inherited.shorts.clone(),
        subs: vec![],
        terms: vec![],
        delims: vec![],
    };
    for a in &c.args {
        if let Some(l) = &a.long {
            n.longs.push(l.clone());
        }
        for (l, _) in &a.aliases {
            n.longs.push(l.clone());
        }
        if let Some(s) = a.short {
            n.shorts.push(s);
        }
        for (s, _) in &a.short_aliases {
            n.shorts.push(*s);
        }
        if let Some(t) = &a.terminator {
            n.terms.push(t.clone());
        }
        if let Some(d) = a.delim {
            n.delims.push(d);
        }
    }
    for s in &c.subs {
        n.subs.push(s.name.clone());
        for (a, _) in &s.aliases {
            n.subs.push(a.clone());
        }
        if let Some(l) = &s.long_flag {
            n.longs.push(l.clone());
        }
        for (l, _) in &s.long_flag_aliases {
            n.longs.push(l.clone());
        }
        if let Some(f) = s.short_flag {
            n.shorts.push(f);
        }
        for (f, _) in &s.short_flag_aliases {
            n.shorts.push(*f);
        }
    }
    n
}

fn globals_of(c: &CmdSpec) -> LevelNames {
    let mut n = LevelNames { longs: vec![], shorts: vec![], subs: vec![], terms: vec![], delims: vec![] };
    for a in &c.args {
        if a.global {
            if let Some(l) = &a.long {
                n.longs.push(l.clone());
            }
            if let Some(s) = a.short {
                n.shorts.push(s);
            }
        }
    }
    n
}

fn edit(rng: &mut Rng, s: &str) -> String {
    let mut cs: Vec<char> = s.chars().collect();
    if cs.is_empty() {
        return "z".into();
    }
    match rng.below(4) {
        0 => {
            let i = rng.below(cs.len());
            cs.remove(i);
        }
        1 => {
            let i = rng.below(cs.len() + 1);
            cs.insert(i, *rng.pick(&['a', 'z', '-', 'é']));
        }
        2 => {
            let i = rng.below(cs.len());
            cs[i] = *rng.pick(&['a', 'z', '_']);
        }
        _ => {
            let k = rng.range(1, cs.len());
            cs.truncate(k);
        }
    }
    cs.into_iter().collect()
}

/// hostile argv: ~60% of tokens derived from the tree's own names so deep paths are reached.
pub fn hostile_argv(rng: &mut Rng, root: &CmdSpec, max_tokens: usize) -> Vec<OsString> {
    let mut out: Vec<OsString> = vec![];
    if !root.has(Setting::NoBinaryName) {
        if root.has(Setting::Multicall) && !root.subs.is_empty() && rng.chance(3, 4) {
            out.push(rng.pick(&root.subs).name.clone().into());
        } else {
            out.push("prog".into());
        }
    }
    let mut cur = root;
    let mut inh = LevelNames { longs: vec![], shorts: vec![], subs: vec![], terms: vec![], delims: vec![] };
    let mut names = level_names(cur, &inh);
    let n = rng.below(max_tokens + 1);
    for _ in 0..n {
        let r = rng.below(100);
        let tok: Vec<u8> = if r < 18 && !names.longs.is_empty() {
            let l = rng.pick(&names.longs).clone();
            match rng.below(6) {
                0 => format!("--{}={}", l, small_values(rng)).into_bytes(),
                1 => format!("--{}=", l).into_bytes(),
                2 => format!("--{}", edit(rng, &l)).into_bytes(),
                _ => format!("--{}", l).into_bytes(),
            }
        } else if r < 36 && !names.shorts.is_empty() {
            let k = rng.range(1, 4);
            let mut s = String::from("-");
            for _ in 0..k {
                s.push(*rng.pick(&names.shorts));
            }
            match rng.below(6) {
                0 => s.push_str(&small_values(rng)),
                1 => {
                    s.push('=');
                    s.push_str(&small_values(rng));
                }
                2 => s.push('Z'),
                _ => {}
            }
            s.into_bytes()
        } else if r < 48 && !names.subs.is_empty() {
            let s = rng.pick(&names.subs).clone();
            if rng.chance(1, 5) {
                edit(rng, &s).into_bytes()
            } else {
                // descend
                if let Some(next) = cur
                    .subs
                    .iter()
                    .find(|x| x.name == s || x.aliases.iter().any(|(a, _)| *a == s))
                {
                    let g = globals_of(cur);
                    inh.longs.extend(g.longs);
                    inh.shorts.extend(g.shorts);
                    cur = next;
                    names = level_names(cur, &inh);
                }
                s.into_bytes()
            }
        } else if r < 54 && !names.terms.is_empty() {
            rng.pick(&names.terms).clone().into_bytes()
        } else if r < 62 {
            small_values(rng).into_bytes()
        } else if r < 66 {
            b"--".to_vec()
        } else if r < 70 {
            b"help".to_vec()
        } else if r < 72 {
            // far end of "any length": one very long token
            let n = *rng.pick(&[64usize, 255, 256, 1000, 5000]);
            match rng.below(6) {
                0 if !names.shorts.is_empty() => {
                    let mut s = String::from("-");
                    for _ in 0..n {
                        s.push(*rng.pick(&names.shorts));
                    }
                    s.into_bytes()
                }
                1 if !names.longs.is_empty() => format!("--{}={}", rng.pick(&names.longs), "v".repeat(n)).into_bytes(),
                2 => "-".repeat(n).into_bytes(),
                3 => "a,".repeat(n / 2).into_bytes(),
                4 => {
                    let mut v = "é".repeat(n / 2).into_bytes();
                    v.push(0xff);
                    v
                }
                _ => "a".repeat(n).into_bytes(),
            }
        } else {
            rng.pick(HOSTILE_TOKENS).to_vec()
        };
        out.push(os(&tok));
    }
    out
}

// ---------------------------------------------------------------- validity repair

/// Pushes a random spec towards what clap's configuration checks accept (the gate remains the
/// arbiter). Only removes/adjusts features; never adds behaviour the generator did not draw.
pub fn sanitize(c: &mut CmdSpec) {
    let has_version = c.version.is_some() || c.long_version.is_some();
    if !has_version {
        c.settings.retain(|s| *s != Setting::PropagateVersion);
        if c.args.iter().any(|a| a.act() == Act::Version) {
            c.version = Some("9.9.9".into());
        }
    }
    let npos = c.args.iter().filter(|a| a.is_positional()).count();
    let explicit = c.args.iter().filter(|a| a.is_positional() && a.index.is_some()).count();
    let mut k = 0;
    let mut seen_optional = false;
    let allow_missing = c.has(Setting::AllowMissingPositional);
    for a in c.args.iter_mut() {
        let tv = a.takes_values();
        if matches!(a.act(), Act::Help | Act::HelpShort | Act::HelpLong | Act::Version) {
            // a default or environment value on a help/version action would *trigger* it
            a.default_ifs.clear();
            a.env = None;
            a.required = false;
        }
        if !tv {
            a.hint = None;
            a.hide_possible_values = false;
            a.hide_default_value = false;
            a.allow_hyphen = false;
            a.allow_negative = false;
            a.require_equals = false;
            a.last = false;
            a.ignore_case = false;
            a.num_args = None;
            a.value_names.clear();
            a.delim = None;
            a.terminator = None;
            a.vp = None;
            a.default_missing.clear();
            a.defaults.clear();
            a.trailing_var_arg = false;
        }
        if a.required {
            a.required_unless_any.clear();
            a.required_unless_all.clear();
            a.required_if_eq_any.clear();
            a.required_if_eq_all.clear();
        }
        if a.global {
            a.required = false;
        }
        let me = a.id.clone();
        a.requires.retain(|x| *x != me);
        a.requires_ifs.retain(|(_, x)| *x != me);
        a.conflicts.retain(|x| *x != me);
        if tv {
            if a.value_names.len() > 1 {
                let n = a.value_names.len();
                match a.num_args {
                    Some((_, hi)) if hi >= n => {}
                    _ => a.num_args = None,
                }
            }
            if a.require_equals {
                if let Some((lo, hi)) = a.num_args {
                    if hi > 1 {
                        a.num_args = Some((lo.min(1), 1));
                    }
                }
                if a.value_names.len() > 1 {
                    a.value_names.truncate(1);
                }
            }
            if a.hint == Some(12) {
                // CommandWithArguments: positional, multiple values, trailing_var_arg
                a.hint = Some(1);
            }
        }
    }
    // positional rules follow index order, which explicit indices may make differ from declaration order
    let mut order: Vec<usize> = (0..c.args.len()).filter(|i| c.args[*i].is_positional()).collect();
    if explicit == npos {
        order.sort_by_key(|i| c.args[*i].index.unwrap_or(0));
    }
    for &ai in &order {
        let a = &mut c.args[ai];
        if a.is_positional() {
            k += 1;
            if explicit != npos {
                a.index = None;
            }
            let is_last = k == npos;
            if !is_last {
                a.last = false;
                a.trailing_var_arg = false;
                if k + 1 != npos {
                    if a.eff_num_args().1 > 1 {
                        a.num_args = None;
                        a.value_names.truncate(1);
                    }
                    if a.action == Some(Act::Append) {
                        a.action = Some(Act::Set);
                    }
                }
            }
            if a.trailing_var_arg {
                a.last = false;
                if a.eff_num_args().1 <= 1 {
                    a.num_args = Some((0, usize::MAX));
                }
            }
            if !allow_missing {
                if seen_optional && !a.last {
                    a.required = false;
                }
                if !a.required {
                    seen_optional = true;
                }
            }
            if let Some((0, hi)) = a.num_args {
                // num_args(0..) positionals are fine; (0,0) is not meaningful
                if hi == 0 {
                    a.num_args = None;
                }
            }
        }
    }
    // a multi-valued positional that is second to last requires the last one to be `last` or required
    if npos >= 2 {
        let idxs: Vec<usize> = order.clone();
        let second = idxs[npos - 2];
        let last = idxs[npos - 1];
        let second_multi = c.args[second].eff_num_args().1 > 1 || c.args[second].action == Some(Act::Append);
        if second_multi && !(c.args[last].last || c.args[last].required || c.args[second].terminator.is_some()) {
            c.args[second].num_args = None;
            c.args[second].value_names.truncate(1);
            c.args[second].action = Some(Act::Set);
        }
        if c.args[second].eff_num_args().1 > 1 && c.args[last].eff_num_args().1 > 1 && c.args[last].num_args.is_some() {
            c.args[last].num_args = None;
            c.args[last].trailing_var_arg = false;
        }
    }
    if c.args.iter().any(|a| a.is_positional() && a.last && a.required) && !c.subs.is_empty() {
        c.set(Setting::SubcommandNegatesReqs);
    }
    for s in c.subs.iter_mut() {
        sanitize(s);
    }
}
