//! C05 — everything after `--` is delivered verbatim as positional values; the prefix keeps its
//! meaning.

use crate::core::*;
use crate::gen::level_names;
use crate::model::*;
use crate::spec::*;
use std::ffi::OsString;

fn tail_token(rng: &mut Rng, c: &CmdSpec, root: &CmdSpec, allow_non_utf8: bool, term: Option<&str>) -> Vec<u8> {
    // a token that differs from the positional's value terminator only in letter case is a value
    if let Some(t) = term {
        if rng.chance(1, 5) {
            let v: String = t.chars().enumerate().map(|(i, ch)| if (rng.below(2) == 0) == (i % 2 == 0) { ch.to_ascii_uppercase() } else { ch }).collect();
            if v != t {
                return v.into_bytes();
            }
            return t.to_ascii_uppercase().into_bytes();
        }
    }
    loop {
        let t = tail_token_inner(rng, c, root, allow_non_utf8);
        if term.map(|x| x.as_bytes() == t.as_slice()).unwrap_or(false) {
            continue; // the exact terminator would end the positional (outside the premise)
        }
        return t;
    }
}

fn tail_token_inner(rng: &mut Rng, c: &CmdSpec, root: &CmdSpec, allow_non_utf8: bool) -> Vec<u8> {
    let empty = crate::gen::LevelNames { longs: vec![], shorts: vec![], subs: vec![], terms: vec![], delims: vec![] };
    let names = level_names(c, &empty);
    let rnames = level_names(root, &empty);
    loop {
        let t: Vec<u8> = match rng.below(19) {
            // bytes that are not UTF-8 around delimiter and dash characters (byte-for-byte clause)
            18 => rng.pick(&[&b"a\xff,b"[..], b"\xff,", b",\xfe", b"x,\xfe\xff,y", b"--k\xff=a,b", b"-\xe9,z", b"\xc3,\xa9", b"t\xe2\x82,u", b"\xff\xff,,\xff"]).to_vec(),
            // delimiter characters inside a tail token (also leading / trailing / doubled)
            16 => rng.pick(&["a,b", "c,d,e", ",x", "y,", ",", "a,,b", "-Wl,-x", "--k=a,b"]).as_bytes().to_vec(),
            17 => format!("t{},u{}", rng.below(100), rng.below(100)).into_bytes(),
            0 => b"--help".to_vec(),
            1 => b"-h".to_vec(),
            2 => b"-V".to_vec(),
            3 => b"--version".to_vec(),
            4 => b"--".to_vec(),
            5 => b"-".to_vec(),
            6 => b"".to_vec(),
            7 => b"help".to_vec(),
            8 if !names.longs.is_empty() => {
                let l = rng.pick(&names.longs);
                if rng.coin() {
                    format!("--{}", l).into_bytes()
                } else {
                    format!("--{}=v", l).into_bytes()
                }
            }
            9 if !names.shorts.is_empty() => {
                let mut s = String::from("-");
                for _ in 0..rng.range(1, 3) {
                    s.push(*rng.pick(&names.shorts));
                }
                s.into_bytes()
            }
            10 if !names.subs.is_empty() => rng.pick(&names.subs).clone().into_bytes(),
            11 if !rnames.subs.is_empty() => rng.pick(&rnames.subs).clone().into_bytes(),
            12 => rng.pick(crate::gen::HOSTILE_TOKENS).to_vec(),
            13 => b"--no-such=1".to_vec(),
            14 => b"-1".to_vec(),
            _ => format!("t{}", rng.below(1000)).into_bytes(),
        };
        if !allow_non_utf8 && std::str::from_utf8(&t).is_err() {
            continue;
        }
        return t;
    }
}

pub fn case(seed: u64, st: &mut Stats) {
    let mut rng = Rng::new(seed);
    let mut o = ConvOpts::full();
    o.depth = 1;
    o.required = false;
    o.last_pos = false;
    o.multi_pos = false;
    // an option that allows hyphen values takes `--` itself as a value while it is open: such a
    // prefix is outside this property's premise (see the note on allow_hyphen below)
    o.extended = false;
    let mut root = conv_cmd(&mut rng, &o);
    // the level that receives the tail: the root, or one of its subcommands
    let at_sub = !root.subs.is_empty() && rng.chance(1, 3);
    let sub_idx = if at_sub { rng.below(root.subs.len()) } else { 0 };
    let os_parser = rng.coin();
    let with_lead = rng.coin();
    let last = rng.coin();
    let delim = if rng.chance(1, 5) { Some(',') } else { None };
    let min = rng.below(2);
    let term: Option<String> = if rng.chance(1, 5) { Some("end".into()) } else { None };
    let term_ignore_case = rng.coin();
    {
        let lvl: &mut CmdSpec = if at_sub { &mut root.subs[sub_idx] } else { &mut root };
        lvl.args.retain(|a| !a.is_positional());
        let n = lvl.args.len();
        // explicit indices, sometimes with the higher index declared first (declaration order is
        // not index order)
        let explicit_index = with_lead && rng.chance(1, 3);
        let rest_first = explicit_index && rng.coin();
        let lead_spec = ArgSpec {
            id: format!("lead{}", n),
            action: Some(Act::Set),
            vp: Some(if os_parser { Vp::Os } else { Vp::Str }),
            index: if explicit_index { Some(1) } else { None },
            ..Default::default()
        };
        if with_lead && !rest_first {
            lvl.args.push(lead_spec.clone());
        }
        lvl.args.push(ArgSpec {
            index: if explicit_index { Some(2) } else { None },
            id: "rest".into(),
            action: Some(if rng.coin() { Act::Append } else { Act::Set }),
            num_args: Some((min, usize::MAX)),
            last,
            delim,
            terminator: term.clone(),
            ignore_case: term.is_some() && term_ignore_case,
            vp: Some(if os_parser { Vp::Os } else { Vp::Str }),
            ..Default::default()
        });
        if with_lead && rest_first {
            lvl.args.push(lead_spec);
        }
        // `[lead] <rest>...` with allow_missing_positional: a value for `lead` directly in front
        // of the `--` is where the parser looks one token ahead
        if with_lead && rng.chance(1, 5) {
            lvl.set(Setting::AllowMissingPositional);
            if let Some(r) = lvl.args.iter_mut().find(|a| a.id == "rest") {
                r.required = true;
            }
        }
        if rng.chance(1, 6) {
            lvl.set(Setting::DontDelimitTrailingValues);
        }
        // settings that change how bare words / dash words are looked at *before* the `--`
        if rng.chance(1, 3) {
            lvl.set(Setting::SubcommandPrecedenceOverArg);
        }
        if rng.chance(1, 4) {
            lvl.set(Setting::InferSubcommands);
        }
        if rng.chance(1, 4) {
            lvl.set(Setting::InferLongArgs);
        }
        if rng.chance(1, 5) {
            lvl.set(Setting::ArgsOverrideSelf);
        }
        if let Some(r) = lvl.args.iter_mut().find(|a| a.id == "rest") {
            // only for a `last` positional: otherwise hyphen values change what the *prefix* means
            // (dash words before `--` become values), which is outside this property's premise
            if r.last && rng.chance(1, 3) {
                r.allow_hyphen = true;
            }
            // number-like dash words are values for `rest` alone: what the other words of the
            // prefix mean does not change, so this sibling setting is inside the premise everywhere
            if rng.chance(1, 3) {
                r.allow_negative = true;
            }
        }
    }
    if rng.chance(1, 4) {
        root.set(Setting::SubcommandPrecedenceOverArg);
    }
    if rng.chance(1, 5) {
        root.set(Setting::ArgsConflictsWithSubcommands);
    }
    root.push_down(&[Setting::InferLongArgs, Setting::InferSubcommands, Setting::ArgsOverrideSelf]);
    let cmd = match gate(&root) {
        Ok(c) => c,
        Err(p) => {
            st.count("gate.rejected");
            st.note(|| format!("gate: {} {}", p.msg, brief(&root)));
            return;
        }
    };
    let io = IntentOpts::default();
    for _ in 0..3 {
        // prefix: an intent for the path down to the tail level, without values for `rest`
        let mut intent = gen_intent(&mut rng, &root, &io);
        fn strip(li: &mut LevelIntent, c: &CmdSpec) {
            // a terminator that closed the removed positional goes with it
            let mut out = vec![];
            let mut dropped = false;
            for it in li.items.drain(..) {
                match &it {
                    Item::Pos { arg, .. } if c.args[*arg].id == "rest" => {
                        dropped = true;
                        continue;
                    }
                    Item::Term { tok } if dropped && !tok.is_empty() => {
                        dropped = false;
                        continue;
                    }
                    _ => dropped = false,
                }
                out.push(it);
            }
            li.items = out;
            li.external = None;
        }
        if at_sub {
            let mut child = match intent.sub.take() {
                Some((si, ch)) if si == sub_idx => *ch,
                _ => gen_intent(&mut rng, &root.subs[sub_idx], &io),
            };
            child.sub = None;
            strip(&mut child, &root.subs[sub_idx]);
            // the parent's open occurrences must be closed before the subcommand name: regenerate
            // the parent part with the subcommand fixed is simplest — keep only closed shapes
            intent.items.retain(|it| matches!(it, Item::Flag { .. }));
            if root.has(Setting::ArgsConflictsWithSubcommands) {
                // arguments before the subcommand name would make the name a positional / a conflict
                intent.items.clear();
            }
            intent.external = None;
            intent.sub = Some((sub_idx, Box::new(child)));
        } else {
            intent.sub = None;
            strip(&mut intent, &root);
        }
        let mut style = Style::random(&mut rng);
        style.escape = 0;
        let r = render(&mut rng, &root, &intent, &style);
        let prefix = r.argv.clone();
        if prefix.iter().any(|t| t == "--") {
            st.count("premise.prefix-has-escape");
            continue;
        }
        let lvl: &CmdSpec = if at_sub { &root.subs[sub_idx] } else { &root };
        let lead_given = {
            let li = if at_sub { intent.sub.as_ref().map(|s| &*s.1).unwrap() } else { &intent };
            li.items.iter().any(|it| matches!(it, Item::Pos { .. }))
        };
        let base = match catch(|| cmd.clone().try_get_matches_from(prefix.clone())) {
            Ok(Ok(m)) => m,
            Ok(Err(_)) => {
                st.count("premise.prefix-invalid");
                continue;
            }
            Err(p) => {
                st.violation(format!("panic:parse@{}", p.loc), format!("{} | argv={}", p.msg, show_argv(&prefix)));
                continue;
            }
        };
        // sometimes `rest` already holds values given *before* the `--` (they are split at the
        // delimiter; the tail is not, under dont_delimit_trailing_values)
        let split = |tok: &[u8]| -> Vec<Vec<u8>> {
            match delim {
                Some(d) => tok.split(|b| *b == d as u8).map(|p| p.to_vec()).collect(),
                None => vec![tok.to_vec()],
            }
        };
        let mut prefix = prefix;
        let mut base = base;
        let mut pre_rest: Vec<Vec<u8>> = vec![];
        if !last && (lead_given || !with_lead) && rng.chance(1, 3) {
            let neg = lvl.args.iter().any(|a| a.id == "rest" && a.allow_negative);
            let pre: Vec<Vec<u8>> = (0..rng.range(1, 2))
                .map(|k| {
                    if neg && rng.coin() {
                        format!("-{}", k + 2).into_bytes()
                    } else if rng.coin() {
                        format!("pre{}", k).into_bytes()
                    } else {
                        format!("p{},q{}", k, k).into_bytes()
                    }
                })
                .collect();
            if neg {
                st.count("tail.after-values-of-negative-number-positional");
            }
            let mut p2 = prefix.clone();
            p2.extend(pre.iter().map(|t| os(t)));
            let want: Vec<Vec<u8>> = pre.iter().flat_map(|t| split(t)).collect();
            if let Ok(Ok(b2)) = catch(|| cmd.clone().try_get_matches_from(p2.clone())) {
                let lb: Option<&clap::ArgMatches> = if at_sub { b2.subcommand().filter(|(n, _)| *n == root.subs[sub_idx].name).map(|(_, m)| m) } else { Some(&b2) };
                let have: Vec<Vec<u8>> = lb.and_then(|m| m.try_get_raw("rest").ok().flatten()).map(|r| r.map(|v| os_bytes(v).to_vec()).collect()).unwrap_or_default();
                if have == want {
                    st.count("tail.after-values-before-escape");
                    prefix = p2;
                    base = b2;
                    pre_rest = want;
                } else {
                    st.count("premise.pre-values-not-at-rest");
                }
            }
        }
        let ntail = rng.below(6);
        let tail: Vec<Vec<u8>> = (0..ntail).map(|_| tail_token(&mut rng, lvl, &root, os_parser, term.as_deref())).collect();
        if lvl.has(Setting::AllowMissingPositional) {
            // premise of this shape: `rest` (required here) gets something, and a value meant for
            // `lead` stands directly in front of the `--` (followed by an option it would be read as
            // the *missing-positional* case, i.e. as a value of `rest`: another grammar, not judged)
            let lead_tok: Option<String> = {
                let li = if at_sub { intent.sub.as_ref().map(|s| &*s.1).unwrap() } else { &intent };
                li.items.iter().find_map(|it| if let Item::Pos { toks, .. } = it { toks.first().cloned() } else { None })
            };
            let lead_is_last = {
                let li = if at_sub { intent.sub.as_ref().map(|s| &*s.1).unwrap() } else { &intent };
                lead_tok.is_none() || matches!(li.items.last(), Some(Item::Pos { .. }))
            };
            if tail.is_empty() || !lead_is_last || !pre_rest.is_empty() {
                st.count("premise.missing-positional-shape-not-met");
                continue;
            }
            st.count(if lead_tok.is_some() { "tail.lead-value-directly-before-escape" } else { "tail.allow-missing-positional-without-lead" });
        }
        if tail.iter().any(|t| std::str::from_utf8(t).is_err() && t.contains(&b',')) {
            st.count("tail.non-utf8-with-delimiter");
        }
        if term.is_some() && !tail.is_empty() {
            st.count("tail.terminator-declared");
        }
        let mut argv = prefix.clone();
        argv.push("--".into());
        argv.extend(tail.iter().map(|t| os(t)));
        st.eval();
        st.nontrivial(mix(hash_str(&format!("{:?}", root)), hash_str(&show_argv(&argv))));
        st.sample(|| format!("argv={} (tail level: {})", show_argv(&argv), lvl.name));
        let ctx = || format!("prefix={} tail={:?} | spec={}", show_argv(&prefix), tail.iter().map(|t| show_bytes(t)).collect::<Vec<_>>(), brief(&root));
        let got = match catch(|| cmd.clone().try_get_matches_from(argv.clone())) {
            Ok(g) => g,
            Err(p) => {
                st.violation(format!("panic:parse@{}", p.loc), format!("{} | {}", p.msg, ctx()));
                continue;
            }
        };
        // distribution of the tail over the positionals
        let mut t: Vec<Vec<u8>> = tail.clone();
        let mut exp_lead: Option<Vec<u8>> = None;
        if with_lead && !lead_given && !last && !t.is_empty() {
            exp_lead = Some(t.remove(0));
        }
        // premise "able to absorb": minimum satisfied or positional simply absent
        if t.is_empty() && min > 0 && false {
            continue;
        }
        let m = match got {
            Ok(m) => m,
            Err(e) => {
                use clap::error::ErrorKind as K;
                let sig = match e.kind() {
                    K::DisplayHelp | K::DisplayVersion | K::DisplayHelpOnMissingArgumentOrSubcommand => "c05:tail-token-triggered-help-or-version".to_string(),
                    k => format!("c05:tail-rejected:{:?}", k),
                };
                st.violation(sig, format!("{} | {}", e.render().to_string().lines().next().unwrap_or(""), ctx()));
                continue;
            }
        };
        st.count("tail.ok");
        if tail.iter().any(|x| x.starts_with(b"-")) {
            st.count("tail.dash-tokens");
        }
        let (lm, lbase): (&clap::ArgMatches, &clap::ArgMatches) = if at_sub {
            match (m.subcommand(), base.subcommand()) {
                (Some((n1, a)), Some((n2, b))) if n1 == n2 && n1 == lvl.name => (a, b),
                (x, _) => {
                    st.violation("c05:subcommand-chain-changed", format!("subcommand {:?} | {}", x.map(|v| v.0), ctx()));
                    continue;
                }
            }
        } else {
            (&m, &base)
        };
        if let Some((n, _)) = lm.subcommand() {
            st.violation("c05:tail-token-taken-as-subcommand", format!("subcommand {:?} dispatched from the tail | {}", n, ctx()));
            continue;
        }
        // expected values of `rest`
        let dont = lvl.has(Setting::DontDelimitTrailingValues);
        let mut exp_rest: Vec<Vec<u8>> = pre_rest.clone();
        for tok in &t {
            match delim {
                Some(d) if !dont => {
                    for piece in tok.split(|b| *b == d as u8) {
                        exp_rest.push(piece.to_vec());
                    }
                }
                _ => exp_rest.push(tok.clone()),
            }
        }
        let got_rest: Vec<Vec<u8>> = lm.try_get_raw("rest").ok().flatten().map(|r| r.map(|v| os_bytes(v).to_vec()).collect()).unwrap_or_default();
        if dont && delim.is_some() && !t.is_empty() {
            st.count("tail.dont-delimit-with-delimiter");
        }
        if got_rest != exp_rest {
            st.violation(
                "c05:tail-not-verbatim",
                format!("`rest` = {:?}, expected {:?} | {}", got_rest.iter().map(|x| show_bytes(x)).collect::<Vec<_>>(), exp_rest.iter().map(|x| show_bytes(x)).collect::<Vec<_>>(), ctx()),
            );
            continue;
        }
        if with_lead {
            let id = lvl.args.iter().find(|a| a.id.starts_with("lead")).unwrap().id.clone();
            let got_lead: Option<Vec<u8>> = lm.try_get_raw(&id).ok().flatten().and_then(|mut r| r.next().map(|v| os_bytes(v).to_vec()));
            if let Some(el) = &exp_lead {
                if got_lead.as_ref() != Some(el) {
                    st.violation("c05:tail-not-verbatim", format!("leading positional = {:?}, expected {:?} | {}", got_lead.map(|x| show_bytes(&x)), show_bytes(el), ctx()));
                    continue;
                }
            }
        }
        // non-interference: every option/flag as in the parse of the prefix alone
        let ob = observe(lvl, lbase, &[]);
        let oa = observe(lvl, lm, &[]);
        for a in &lvl.args {
            if a.is_positional() {
                continue;
            }
            if ob.args.get(&a.id) != oa.args.get(&a.id) {
                // defaults' indices legitimately move behind the tail's
                let mut x = ob.args.get(&a.id).cloned().unwrap_or_default();
                let mut y = oa.args.get(&a.id).cloned().unwrap_or_default();
                if x.source != Some(Src::Cli) {
                    x.indices.clear();
                    y.indices.clear();
                }
                if x != y {
                    st.violation("c05:prefix-interference", format!("{}: {:?} without tail, {:?} with | {}", a.id, x, y, ctx()));
                    break;
                }
            }
        }
    }
}
