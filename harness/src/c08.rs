//! C08 — equivalent spellings parse identically; ambiguous prefixes are never resolved.

use crate::core::*;
use crate::model::*;
use crate::spec::*;
use std::collections::BTreeMap;

/// (name, target id) of everything prefix-matchable among long options at this level
fn long_targets(c: &CmdSpec) -> Vec<(String, String)> {
    let mut v = vec![];
    if c.has(Setting::InferLongArgs) {
        for a in &c.args {
            if let Some(l) = &a.long {
                v.push((l.clone(), format!("arg:{}", a.id)));
            }
            for (l, _) in &a.aliases {
                v.push((l.clone(), format!("arg:{}", a.id)));
            }
        }
        v.push(("help".into(), "arg:help".into()));
        if c.version.is_some() {
            v.push(("version".into(), "arg:version".into()));
        }
    }
    if c.has(Setting::InferSubcommands) {
        for s in &c.subs {
            if let Some(l) = &s.long_flag {
                v.push((l.clone(), format!("sub:{}", s.name)));
            }
            for (l, _) in &s.long_flag_aliases {
                v.push((l.clone(), format!("sub:{}", s.name)));
            }
        }
    }
    v
}

fn exact_longs(c: &CmdSpec) -> Vec<String> {
    let mut v: Vec<String> = vec!["help".into(), "version".into()];
    for a in &c.args {
        if let Some(l) = &a.long {
            v.push(l.clone());
        }
        for (l, _) in &a.aliases {
            v.push(l.clone());
        }
    }
    for s in &c.subs {
        if let Some(l) = &s.long_flag {
            v.push(l.clone());
        }
        for (l, _) in &s.long_flag_aliases {
            v.push(l.clone());
        }
    }
    v
}

/// prefixes shared by >= 2 distinct targets that are not themselves an exact name
fn ambiguous_prefixes(names: &[(String, String)], exact: &[String]) -> Vec<String> {
    let mut out = std::collections::BTreeSet::new();
    for (i, (n1, t1)) in names.iter().enumerate() {
        for (n2, t2) in names.iter().skip(i + 1) {
            if t1 == t2 {
                continue;
            }
            let common: String = n1.chars().zip(n2.chars()).take_while(|(a, b)| a == b).map(|(a, _)| a).collect();
            let cs: Vec<char> = common.chars().collect();
            for k in 1..=cs.len() {
                let p: String = cs[..k].iter().collect();
                if !exact.contains(&p) {
                    out.insert(p);
                }
            }
        }
    }
    out.into_iter().collect()
}

pub fn case(seed: u64, st: &mut Stats) {
    let mut rng = Rng::new(seed);
    let mut o = ConvOpts::full();
    o.required = rng.coin();
    o.hyphen_pos = true;
    o.explicit_index = true;
    let mut spec = conv_cmd(&mut rng, &o);
    if rng.coin() {
        spec.set(Setting::InferLongArgs);
    }
    if rng.coin() {
        spec.set(Setting::InferSubcommands);
    }
    spec.push_down(&[Setting::InferLongArgs, Setting::InferSubcommands]);
    let cmd = match gate(&spec) {
        Ok(c) => c,
        Err(_) => {
            st.count("gate.rejected");
            return;
        }
    };
    let io = IntentOpts::default();
    for _ in 0..2 {
        let intent = gen_intent(&mut rng, &spec, &io);
        let r0 = render(&mut rng, &spec, &intent, &Style::canonical());
        let base = catch(|| cmd.clone().try_get_matches_from(r0.argv.clone()));
        let base = match base {
            Ok(b) => b,
            Err(p) => {
                st.violation(format!("panic:parse@{}", p.loc), format!("{} | argv={} | spec={}", p.msg, show_argv(&r0.argv), brief(&spec)));
                continue;
            }
        };
        st.nontrivial(mix(hash_str(&format!("{:?}", spec)), hash_str(&show_argv(&r0.argv))));
        for _ in 0..3 {
            let mut style = Style::random(&mut rng);
            // a short flag subcommand inside the clusters around it (`-vS`, `-Syu`) is one more
            // spelling of "separate short flags"
            style.merge_flag_sub = if rng.coin() { 80 } else { 0 };
            let r = render(&mut rng, &spec, &intent, &style);
            if r.argv == r0.argv {
                st.count("rewrite.identical-argv");
                continue;
            }
            st.eval();
            for f in &r.features {
                st.count(&format!("spelling.{}", f));
            }
            st.sample(|| format!("canonical={} rewritten={}", show_argv(&r0.argv), show_argv(&r.argv)));
            let got = catch(|| cmd.clone().try_get_matches_from(r.argv.clone()));
            let ctx = || format!("canonical argv={} | rewritten argv={} (features {:?}) | spec={}", show_argv(&r0.argv), show_argv(&r.argv), r.features, brief(&spec));
            match (&base, got) {
                (_, Err(p)) => st.violation(format!("panic:parse@{}", p.loc), format!("{} | {}", p.msg, ctx())),
                (Ok(m0), Ok(Ok(m))) => {
                    st.count("rewrite.both-ok");
                    // A short flag subcommand (`-S`) deliberately continues the parent's index
                    // counter (it may sit inside a cluster), so index *values* shift against the
                    // name spelling; the property speaks of order, so compare ranks there.
                    let shifted = r.features.contains(&"sub.short-flag");
                    if shifted {
                        st.count("rewrite.index-rank-compare");
                        let mut o0 = observe(&spec, m0, &[]);
                        let mut o1 = observe(&spec, &m, &[]);
                        rank_indices(&mut o0);
                        rank_indices(&mut o1);
                        if let Some(d) = first_obs_diff(&spec, &o0, &o1) {
                            st.violation("c08:spelling-changes-matches", format!("{} | {}", d, ctx()));
                        }
                    } else if *m0 != m {
                        // refine the signature with the first differing observation
                        let o0 = observe(&spec, m0, &[]);
                        let o1 = observe(&spec, &m, &[]);
                        let d = first_obs_diff(&spec, &o0, &o1).unwrap_or_else(|| "ArgMatches != (no difference in the public observation)".into());
                        st.violation("c08:spelling-changes-matches", format!("{} | {}", d, ctx()));
                    }
                }
                (Err(e0), Ok(Err(e))) => {
                    st.count("rewrite.both-err");
                    if e0.kind() != e.kind() {
                        st.violation("c08:spelling-changes-error-kind", format!("{:?} vs {:?} | {}", e0.kind(), e.kind(), ctx()));
                    }
                }
                (Ok(_), Ok(Err(e))) => st.violation(format!("c08:spelling-rejected:{:?}", e.kind()), format!("canonical ok, rewritten: {} | {}", e.render().to_string().lines().next().unwrap_or(""), ctx())),
                (Err(e0), Ok(Ok(_))) => st.violation(format!("c08:canonical-rejected:{:?}", e0.kind()), format!("rewritten ok, canonical: {} | {}", e0.render().to_string().lines().next().unwrap_or(""), ctx())),
            }
        }
    }
    // ambiguity probes at the root level
    let names = long_targets(&spec);
    let amb = ambiguous_prefixes(&names, &exact_longs(&spec));
    // (an unknown long in front of a positional that allows hyphen values is that positional's value)
    let root_hyphen_pos = spec.args.iter().any(|a| a.is_positional() && a.allow_hyphen);
    for p in amb.iter().take(if root_hyphen_pos { 0 } else { 6 }) {
        for form in 0..2 {
            let tok = if form == 0 { format!("--{}", p) } else { format!("--{}=v", p) };
            st.eval();
            let argv = vec![std::ffi::OsString::from("prog"), tok.clone().into()];
            let got = catch(|| cmd.clone().try_get_matches_from(argv.clone()));
            st.count("ambiguous.probes");
            let cands: Vec<&(String, String)> = names.iter().filter(|(n, _)| n.starts_with(p.as_str())).collect();
            let mixed = cands.iter().any(|(_, t)| t.starts_with("sub:")) && cands.iter().any(|(_, t)| t.starts_with("arg:"));
            if mixed {
                st.count("ambiguous.arg-vs-flag-subcommand");
            }
            match got {
                Err(pn) => st.violation(format!("panic:parse@{}", pn.loc), format!("{} | argv={}", pn.msg, show_argv(&argv))),
                Ok(Ok(_)) => st.violation(
                    if mixed { "c08:ambiguous-prefix-resolved:arg-vs-long-flag-subcommand" } else { "c08:ambiguous-prefix-resolved" },
                    format!("{} accepted although candidates {:?} share the prefix | spec={}", tok, cands, brief(&spec)),
                ),
                Ok(Err(e)) => {
                    use clap::error::ErrorKind as K;
                    if !matches!(e.kind(), K::UnknownArgument) {
                        st.violation(
                            if mixed { "c08:ambiguous-prefix-resolved:arg-vs-long-flag-subcommand" } else { "c08:ambiguous-prefix-resolved" },
                            format!("{} was resolved (error {:?} comes from a later rule) although candidates {:?} share the prefix | spec={}", tok, e.kind(), cands, brief(&spec)),
                        );
                    }
                }
            }
        }
    }
    // ambiguous subcommand-name prefixes (only where no positional could take the token)
    if spec.has(Setting::InferSubcommands) && spec.positionals().is_empty() && !spec.has(Setting::AllowExternalSubcommands) {
        let mut names: Vec<(String, String)> = vec![];
        for s in &spec.subs {
            names.push((s.name.clone(), s.name.clone()));
            for (a, _) in &s.aliases {
                names.push((a.clone(), s.name.clone()));
            }
        }
        if !spec.subs.is_empty() {
            names.push(("help".into(), "help".into()));
        }
        let exact: Vec<String> = names.iter().map(|x| x.0.clone()).collect();
        for p in ambiguous_prefixes(&names, &exact).iter().take(4) {
            st.eval();
            st.count("ambiguous.sub-probes");
            let argv = vec![std::ffi::OsString::from("prog"), p.clone().into()];
            match catch(|| cmd.clone().try_get_matches_from(argv.clone())) {
                Err(pn) => st.violation(format!("panic:parse@{}", pn.loc), format!("{} | argv={}", pn.msg, show_argv(&argv))),
                Ok(Ok(m)) => {
                    if m.subcommand_name().is_some() {
                        st.violation("c08:ambiguous-subcommand-prefix-resolved", format!("{:?} dispatched to {:?} | spec={}", p, m.subcommand_name(), brief(&spec)));
                    }
                }
                Ok(Err(e)) => {
                    use clap::error::ErrorKind as K;
                    if !matches!(e.kind(), K::InvalidSubcommand | K::UnknownArgument) {
                        st.violation("c08:ambiguous-subcommand-prefix-resolved", format!("{:?} gave {:?} | spec={}", p, e.kind(), brief(&spec)));
                    }
                }
            }
        }
    }
    let _ = BTreeMap::<u8, u8>::new();
}

/// replace index values by their rank within the level (order-isomorphism)
fn rank_indices(o: &mut LevelObs) {
    let mut all: Vec<usize> = o.args.values().flat_map(|a| a.indices.iter().copied()).collect();
    all.sort();
    all.dedup();
    for a in o.args.values_mut() {
        for i in a.indices.iter_mut() {
            *i = all.binary_search(i).unwrap();
        }
    }
    if let Some((_, s)) = o.sub.as_mut() {
        rank_indices(s);
    }
}

fn first_obs_diff(c: &CmdSpec, a: &LevelObs, b: &LevelObs) -> Option<String> {
    for arg in &c.args {
        let x = a.args.get(&arg.id);
        let y = b.args.get(&arg.id);
        if x != y {
            return Some(format!("{}: {:?} vs {:?}", arg.id, x, y));
        }
    }
    match (&a.sub, &b.sub) {
        (Some((n1, s1)), Some((n2, s2))) => {
            if n1 != n2 {
                return Some(format!("subcommand {} vs {}", n1, n2));
            }
            c.sub(n1).and_then(|s| first_obs_diff(s, s1, s2))
        }
        (None, None) => None,
        (x, y) => Some(format!("subcommand {:?} vs {:?}", x.as_ref().map(|v| &v.0), y.as_ref().map(|v| &v.0))),
    }
}
