//! C07 — occurrences combine by action: last-wins, append-in-order, saturating count; overrides.

use crate::core::*;
use crate::spec::*;
use clap::error::ErrorKind;
use std::collections::BTreeMap;
use std::ffi::OsString;

#[derive(Clone, Debug)]
struct Occ {
    arg: usize,
    vals: Vec<String>,
}

#[derive(Clone, Debug, PartialEq)]
enum St {
    Vals(Vec<Vec<String>>),
    Flag,
    Count(u32),
}

fn gen_spec(rng: &mut Rng) -> CmdSpec {
    let mut c = CmdSpec { name: "prog".into(), ..Default::default() };
    let n = rng.range(1, 4);
    let shorts = ['a', 'b', 'c', 'd'];
    let longs = ["alpha", "beta", "gamma", "delta"];
    for i in 0..n {
        let mut a = ArgSpec { id: format!("x{}", i), short: Some(shorts[i]), long: Some(longs[i].into()), ..Default::default() };
        a.action = Some(match rng.below(6) {
            0 => Act::Set,
            1 => Act::Append,
            2 => Act::SetTrue,
            3 => Act::SetFalse,
            _ => Act::Count,
        });
        if a.takes_values() && rng.chance(1, 4) {
            // bounded ranges of several sizes; occurrences are filled anywhere up to the bound
            let hi = *rng.pick(&[2usize, 2, 3, 5]);
            a.num_args = Some((rng.range(1, 2).min(hi), hi));
        } else if a.takes_values() && rng.chance(1, 4) {
            // an occurrence may come without a value (kept as an empty occurrence, or filled
            // from default_missing_value)
            a.num_args = Some((0, rng.range(1, 2)));
            if rng.coin() {
                a.default_missing = vec![format!("x{}dm", i)];
            }
        }
        if a.takes_values() && rng.chance(1, 5) {
            a.delim = Some(',');
        }
        if a.takes_values() && rng.chance(1, 5) {
            a.defaults = vec![format!("x{}def", i)];
        }
        c.args.push(a);
    }
    // override graph, both directions and self
    let ids: Vec<String> = c.args.iter().map(|a| a.id.clone()).collect();
    for i in 0..n {
        for j in 0..n {
            let p = if i == j { 4 } else { 5 };
            if rng.chance(1, p) {
                c.args[i].overrides.push(ids[j].clone());
            }
        }
    }
    if rng.chance(1, 4) {
        c.set(Setting::ArgsOverrideSelf);
    }
    // a (multiple) group over some of the arguments: what an override removes must also be gone
    // from the groups it is a member of
    if rng.coin() {
        let mut members: Vec<String> = c.args.iter().filter(|_| rng.coin()).map(|a| a.id.clone()).collect();
        if members.is_empty() {
            members.push(c.args[0].id.clone());
        }
        c.groups.push(GroupSpec { id: "g0".into(), members, multiple: true, ..Default::default() });
    }
    c
}

fn gen_seq(rng: &mut Rng, c: &CmdSpec, thorough: bool) -> Vec<Occ> {
    let len = match rng.below(12) {
        0 => 0,
        1 => 1,
        2 => 2,
        3 => *rng.pick(&[254usize, 255, 256, 257, 300]),
        4 if thorough => rng.range(200, 300),
        _ => rng.range(0, 12),
    };
    // long sequences concentrate on one arg (to reach the count boundary) with a few others interleaved
    let focus = rng.below(c.args.len());
    let mut seq = vec![];
    let mut counter: BTreeMap<usize, usize> = BTreeMap::new();
    for _ in 0..len {
        let ai = if len > 20 && !rng.chance(1, 40) { focus } else { rng.below(c.args.len()) };
        let a = &c.args[ai];
        let k = counter.entry(ai).or_insert(0);
        let vals = if a.takes_values() {
            let (lo, hi) = a.eff_num_args();
            let n = if lo == 0 && rng.chance(1, 3) {
                0
            } else if hi > 1 && rng.coin() {
                // up to the declared maximum, which is where an occurrence closes by itself
                if rng.coin() {
                    hi
                } else {
                    rng.range(lo.max(1), hi)
                }
            } else {
                lo.max(1)
            };
            (0..n).map(|j| format!("{}o{}v{}", a.id, *k, j)).collect()
        } else {
            vec![]
        };
        *k += 1;
        seq.push(Occ { arg: ai, vals });
    }
    seq
}

fn render(rng: &mut Rng, c: &CmdSpec, seq: &[Occ]) -> Vec<OsString> {
    let mut argv: Vec<OsString> = vec!["prog".into()];
    let mut i = 0;
    while i < seq.len() {
        let a = &c.args[seq[i].arg];
        if !a.takes_values() {
            // cluster runs of flags sometimes (`-vvvv`, `-ab`)
            if rng.coin() {
                let mut tok = String::from("-");
                let mut k = i;
                while k < seq.len() && !c.args[seq[k].arg].takes_values() && tok.len() < 40 && (k == i || rng.chance(3, 4)) {
                    tok.push(c.args[seq[k].arg].short.unwrap());
                    k += 1;
                }
                argv.push(tok.into());
                i = k;
            } else {
                argv.push(format!("--{}", a.long.as_ref().unwrap()).into());
                i += 1;
            }
        } else {
            let vals = &seq[i].vals;
            if vals.len() == 1 && rng.coin() {
                if rng.coin() {
                    argv.push(format!("--{}={}", a.long.as_ref().unwrap(), vals[0]).into());
                } else {
                    argv.push(format!("-{}{}", a.short.unwrap(), vals[0]).into());
                }
            } else {
                argv.push(if rng.coin() { format!("--{}", a.long.as_ref().unwrap()) } else { format!("-{}", a.short.unwrap()) }.into());
                for v in vals {
                    argv.push(v.clone().into());
                }
            }
            i += 1;
        }
    }
    argv
}

/// the fold model; Err(arg) = a repeat that must be rejected as a conflict
fn fold(c: &CmdSpec, seq: &[Occ]) -> Result<BTreeMap<usize, St>, usize> {
    let mut state: BTreeMap<usize, St> = BTreeMap::new();
    let aos = c.has(Setting::ArgsOverrideSelf);
    for o in seq {
        let x = &c.args[o.arg];
        let self_over = aos || x.overrides.contains(&x.id);
        let vals: Vec<String> = if o.vals.is_empty() && x.takes_values() {
            x.default_missing.clone()
        } else {
            o.vals.iter().flat_map(|v| crate::model::split_tok(x, v)).collect()
        };
        // the count is read before anything is removed
        let prev_count = match state.get(&o.arg) {
            Some(St::Count(n)) => *n,
            _ => 0,
        };
        match x.act() {
            Act::Set | Act::SetTrue | Act::SetFalse => {
                if state.remove(&o.arg).is_some() && !self_over {
                    return Err(o.arg);
                }
            }
            _ => {}
        }
        // overrides in either declaration direction (and self when declared)
        for (yi, y) in c.args.iter().enumerate() {
            if x.overrides.contains(&y.id) || (state.contains_key(&yi) && y.overrides.contains(&x.id)) {
                state.remove(&yi);
            }
        }
        match x.act() {
            Act::Set => {
                state.insert(o.arg, St::Vals(vec![vals]));
            }
            Act::Append => match state.get_mut(&o.arg) {
                Some(St::Vals(v)) => v.push(vals),
                _ => {
                    state.insert(o.arg, St::Vals(vec![vals]));
                }
            },
            Act::SetTrue | Act::SetFalse => {
                state.insert(o.arg, St::Flag);
            }
            Act::Count => {
                state.insert(o.arg, St::Count((prev_count + 1).min(255)));
            }
            _ => {}
        }
    }
    Ok(state)
}

pub fn case(seed: u64, st: &mut Stats) {
    let mut rng = Rng::new(seed);
    let spec = gen_spec(&mut rng);
    // the arguments live 0, 1 or 2 subcommand levels down; args_override_self (a setting every
    // level inherits) is then declared at the very top
    let depth = rng.below(3);
    let built_spec = if depth == 0 {
        spec.clone()
    } else {
        let mut leaf = spec.clone();
        leaf.name = "leaf".into();
        let aos = leaf.has(Setting::ArgsOverrideSelf);
        leaf.settings.retain(|s| *s != Setting::ArgsOverrideSelf);
        let mut cur = leaf;
        for d in (0..depth).rev() {
            let mut parent = CmdSpec { name: if d == 0 { "prog".into() } else { "mid".into() }, ..Default::default() };
            parent.subs.push(cur);
            cur = parent;
        }
        if aos {
            cur.set(Setting::ArgsOverrideSelf);
        }
        cur
    };
    st.count(&format!("depth.{}", depth));
    let cmd = match gate(&built_spec) {
        Ok(c) => c,
        Err(_) => {
            st.count("gate.rejected");
            return;
        }
    };
    for _ in 0..3 {
        let seq = gen_seq(&mut rng, &spec, st.tier_thorough);
        let mut argv = render(&mut rng, &spec, &seq);
        if depth > 0 {
            let path: Vec<OsString> = (1..=depth).map(|d| if d == depth { "leaf".into() } else { "mid".into() }).collect();
            argv.splice(1..1, path);
        }
        st.eval();
        st.nontrivial(mix(hash_str(&format!("{:?}", spec)), hash_str(&show_argv(&argv))));
        let short_argv = || {
            if argv.len() > 40 {
                format!("{} … ({} tokens)", show_argv(&argv[..40]), argv.len())
            } else {
                show_argv(&argv)
            }
        };
        st.sample(|| format!("argv={} overrides={:?}", short_argv(), spec.args.iter().map(|a| (a.id.clone(), a.overrides.clone())).collect::<Vec<_>>()));
        let ctx = || format!("argv={} | spec={}", short_argv(), brief(&spec));
        let exp = fold(&spec, &seq);
        let got = catch(|| cmd.clone().try_get_matches_from(argv.clone()));
        let got = match got {
            Ok(g) => g,
            Err(p) => {
                st.violation(format!("panic:parse@{}", p.loc), format!("{} | {}", p.msg, ctx()));
                continue;
            }
        };
        if seq.len() >= 254 {
            st.count("seq.count_boundary");
        }
        match (got, exp) {
            (Err(e), Err(ai)) => {
                st.count("repeat.rejected");
                if e.kind() != ErrorKind::ArgumentConflict {
                    st.violation(format!("c07:repeat-kind:{:?}", e.kind()), format!("repeat of {} must be ArgumentConflict | {}", spec.args[ai].id, ctx()));
                }
            }
            (Ok(_), Err(ai)) => st.violation("c07:repeat-accepted", format!("second occurrence of non-overriding {} accepted | {}", spec.args[ai].id, ctx())),
            (Err(e), Ok(_)) => st.violation(format!("c07:valid-sequence-rejected:{:?}", e.kind()), format!("{} | {}", e.render().to_string().lines().next().unwrap_or(""), ctx())),
            (Ok(m), Ok(state)) => {
                st.count("fold.ok");
                let mut m = &m;
                for _ in 0..depth {
                    match m.subcommand() {
                        Some((_, sm)) => m = sm,
                        None => {
                            st.violation("c07:subcommand-chain-lost", ctx());
                            break;
                        }
                    }
                }
                if let Some(g) = spec.groups.first() {
                    let mut want: Vec<String> = spec.args.iter().enumerate().filter(|(ai, a)| g.members.contains(&a.id) && state.contains_key(ai)).map(|(_, a)| a.id.clone()).collect();
                    want.sort();
                    let mut have: Vec<String> = m.try_get_many::<clap::Id>("g0").ok().flatten().map(|v| v.map(|x| x.as_str().to_string()).collect()).unwrap_or_default();
                    have.sort();
                    have.dedup();
                    let contains = m.try_contains_id("g0").ok();
                    st.count(if want.is_empty() { "group.absent" } else { "group.present" });
                    if have != want || contains != Some(!want.is_empty()) {
                        st.violation("c07:group-members-after-fold", format!("g0: members {:?} (contains_id {:?}), expected {:?} | {}", have, contains, want, ctx()));
                        continue;
                    }
                    if seq.iter().any(|o| g.members.contains(&spec.args[o.arg].id) && !state.contains_key(&o.arg)) {
                        st.count("group.member-removed-by-override");
                    }
                }
                for (ai, a) in spec.args.iter().enumerate() {
                    let id = a.id.as_str();
                    let src = m.value_source(id);
                    let cli = src == Some(clap::parser::ValueSource::CommandLine);
                    match a.act() {
                        Act::Set | Act::Append => {
                            let occ: Vec<Vec<String>> = m
                                .try_get_raw_occurrences(id)
                                .ok()
                                .flatten()
                                .map(|o| o.map(|v| v.map(|x| x.to_string_lossy().into_owned()).collect()).collect())
                                .unwrap_or_default();
                            match state.get(&ai) {
                                Some(St::Vals(v)) => {
                                    if !cli || &occ != v {
                                        let kind = if a.act() == Act::Set { "set-last-wins" } else { "append-order" };
                                        st.violation(format!("c07:{}", kind), format!("{}: expected {:?} observed {:?} (source {:?}) | {}", id, v, occ, src, ctx()));
                                    }
                                    if v.len() > 1 {
                                        st.count("fold.append_multi");
                                    }
                                    if v.iter().any(|o| o.is_empty()) {
                                        st.count("fold.empty-occurrence");
                                    }
                                }
                                _ => {
                                    // overridden or never given: absent, or its default
                                    let want: Vec<Vec<String>> = if a.defaults.is_empty() { vec![] } else { vec![a.defaults.clone()] };
                                    if cli || occ != want {
                                        st.violation("c07:override-left-values", format!("{}: expected absent/default {:?}, observed {:?} (source {:?}) | {}", id, want, occ, src, ctx()));
                                    }
                                    if seq.iter().any(|o| o.arg == ai) {
                                        st.count("fold.removed_by_override");
                                    }
                                }
                            }
                        }
                        Act::SetTrue | Act::SetFalse => {
                            let on = a.act() == Act::SetTrue;
                            let present = matches!(state.get(&ai), Some(St::Flag));
                            let want = if present { on } else { !on };
                            let got = m.try_get_one::<bool>(id).ok().flatten().copied();
                            if got != Some(want) || cli != present {
                                st.violation("c07:flag", format!("{}: expected {} (present={}) observed {:?} source {:?} | {}", id, want, present, got, src, ctx()));
                            }
                        }
                        Act::Count => {
                            let want = match state.get(&ai) {
                                Some(St::Count(n)) => *n as u8,
                                _ => 0,
                            };
                            let got = m.try_get_one::<u8>(id).ok().flatten().copied();
                            if got != Some(want) || cli != (want > 0) {
                                st.violation("c07:count", format!("{}: expected {} observed {:?} source {:?} | {}", id, want, got, src, ctx()));
                            }
                            if want == 255 {
                                st.count("fold.count_saturated");
                            }
                        }
                        _ => {}
                    }
                }
            }
        }
    }
}
