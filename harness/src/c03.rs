//! C03 — a successful parse satisfies every declared relation between arguments.
//!
//! Invariant monitor: an independent relation evaluator judges every `Ok` result. Exemptions are
//! modelled generously (the evaluator can only miss a defect, never invent one).

use crate::core::*;
use crate::spec::*;
use clap::parser::ValueSource;
use std::collections::{BTreeMap, BTreeSet};
use std::ffi::OsString;

fn pick_some(rng: &mut Rng, ids: &[String], me: &str, max: usize) -> Vec<String> {
    let mut v = vec![];
    for _ in 0..rng.range(1, max) {
        let x = rng.pick(ids).clone();
        if x != me && !v.contains(&x) {
            v.push(x);
        }
    }
    v
}

pub fn gen_spec(rng: &mut Rng, with_overrides: bool) -> (CmdSpec, BTreeMap<String, String>) {
    let n = rng.range(2, 7);
    let mut c = CmdSpec { name: "prog".into(), ..Default::default() };
    let mut env = BTreeMap::new();
    for i in 0..n {
        let mut a = ArgSpec { id: format!("a{}", i), long: Some(format!("a{}", i)), ..Default::default() };
        if rng.coin() {
            a.action = Some(Act::SetTrue);
        } else {
            // Append options are given several times: value predicates must look at every occurrence
            a.action = Some(if rng.chance(1, 4) { Act::Append } else { Act::Set });
            if rng.chance(1, 5) {
                a.defaults = vec!["dflt".into()];
            }
            // an option may be given without a value (no missing-value default): present all the same
            if rng.chance(1, 5) {
                a.num_args = Some((0, 1));
            }
            if rng.chance(1, 6) {
                let var = format!("CLAPR_{}", i);
                if rng.coin() {
                    env.insert(var.clone(), "v1".to_string());
                }
                a.env = Some(var);
            }
        }
        c.args.push(a);
    }
    let arg_ids: Vec<String> = c.args.iter().map(|a| a.id.clone()).collect();
    let ng = rng.below(3);
    for g in 0..ng {
        let members = pick_some(rng, &arg_ids, "", 3);
        c.groups.push(GroupSpec { id: format!("g{}", g), members, required: rng.chance(1, 3), multiple: rng.chance(1, 2), ..Default::default() });
    }
    let mut ids = arg_ids.clone();
    ids.extend(c.groups.iter().map(|g| g.id.clone()));
    let group_members: Vec<(String, Vec<String>)> = c.groups.iter().map(|g| (g.id.clone(), g.members.clone())).collect();
    for g in c.groups.iter_mut() {
        if rng.chance(1, 4) {
            g.conflicts = pick_some(rng, &arg_ids, "", 1);
            // ... or another group as a whole (one that shares no member with this one)
            let others: Vec<&String> = group_members.iter().filter(|(id, m)| *id != g.id && !m.iter().any(|x| g.members.contains(x))).map(|(id, _)| id).collect();
            if !others.is_empty() && rng.coin() {
                g.conflicts = vec![(*rng.pick(&others)).clone()];
            }
        }
        if rng.chance(1, 4) {
            g.requires = pick_some(rng, &arg_ids, "", 1);
        }
    }
    for i in 0..n {
        let me = c.args[i].id.clone();
        let a = &mut c.args[i];
        if rng.chance(1, 4) {
            a.conflicts = pick_some(rng, &ids, &me, 2);
        }
        if rng.chance(1, 4) {
            a.requires = pick_some(rng, &ids, &me, 2);
        }
        if rng.chance(1, 6) {
            for r in pick_some(rng, &ids, &me, 1) {
                a.requires_ifs.push((if rng.coin() { Some("v1".into()) } else { None }, r.clone()));
                // the same target may be named again: by another value, or unconditionally
                if rng.coin() {
                    a.requires_ifs.push((Some((*rng.pick(&["v2", "v3"])).to_string()), r.clone()));
                }
                if rng.chance(1, 4) {
                    a.requires.push(r);
                }
            }
        }
        if with_overrides && rng.chance(1, 5) {
            a.overrides = pick_some(rng, &arg_ids, "", 2);
        }
        if rng.chance(1, 8) {
            a.required = true;
        } else {
            if rng.chance(1, 8) {
                a.required_unless_any = pick_some(rng, &ids, &me, 2);
            }
            if rng.chance(1, 10) || (!a.required_unless_any.is_empty() && rng.chance(1, 3)) {
                a.required_unless_all = pick_some(rng, &ids, &me, 2);
            }
            if rng.chance(1, 8) {
                a.required_if_eq_any = pick_some(rng, &arg_ids, &me, 2).into_iter().map(|x| (x, if rng.coin() { "v1".into() } else { "true".into() })).collect();
            }
            // both sibling rules on one argument: either may fire on its own
            if rng.chance(1, 10) || (!a.required_if_eq_any.is_empty() && rng.chance(1, 3)) {
                a.required_if_eq_all = pick_some(rng, &arg_ids, &me, 2).into_iter().map(|x| (x, if rng.coin() { "v1".into() } else { "true".into() })).collect();
            }
        }
        if rng.chance(1, 12) {
            a.exclusive = true;
        }
    }
    if rng.chance(1, 4) {
        c.subs.push(CmdSpec { name: "sub".into(), ..Default::default() });
        if rng.coin() {
            c.set(Setting::SubcommandNegatesReqs);
        }
        if rng.chance(1, 3) {
            c.set(Setting::ArgsConflictsWithSubcommands);
        }
    }
    (c, env)
}

pub struct Eval<'a> {
    pub c: &'a CmdSpec,
    /// explicitly present args (command line or environment)
    pub present: BTreeSet<String>,
    pub values: BTreeMap<String, Vec<String>>,
    pub has_sub: bool,
}

impl<'a> Eval<'a> {
    fn members(&self, id: &str) -> Vec<String> {
        match self.c.group(id) {
            Some(g) => g.members.clone(),
            None => vec![id.to_string()],
        }
    }
    pub fn is_present(&self, id: &str) -> bool {
        self.members(id).iter().any(|m| self.present.contains(m))
    }
    fn groups_of(&self, arg: &str) -> Vec<&GroupSpec> {
        self.c.groups.iter().filter(|g| g.members.iter().any(|m| m == arg)).collect()
    }
    /// everything `a` is declared (in either direction, through groups) to conflict with
    fn conflict_partners(&self, a: &str) -> BTreeSet<String> {
        let mut out = BTreeSet::new();
        let mut mine: Vec<String> = vec![a.to_string()];
        mine.extend(self.groups_of(a).iter().map(|g| g.id.clone()));
        // declared by me or by a group I am in
        if let Some(arg) = self.c.arg(a) {
            for c in &arg.conflicts {
                out.extend(self.members(c));
            }
        }
        for g in self.groups_of(a) {
            for c in &g.conflicts {
                out.extend(self.members(c));
            }
            // members of a non-multiple group exclude each other
            if !g.multiple {
                out.extend(g.members.iter().cloned());
            }
        }
        // overrides are implicitly conflicts (either declaration direction)
        if let Some(arg) = self.c.arg(a) {
            out.extend(arg.overrides.iter().cloned());
        }
        for other in &self.c.args {
            if other.overrides.iter().any(|x| x == a) {
                out.insert(other.id.clone());
            }
        }
        // declared by others against me or a group I am in
        for other in &self.c.args {
            if other.conflicts.iter().any(|x| mine.contains(x)) {
                out.insert(other.id.clone());
            }
        }
        for g in &self.c.groups {
            if g.conflicts.iter().any(|x| mine.contains(x)) {
                out.extend(g.members.iter().cloned());
            }
        }
        out.remove(a);
        out
    }
    fn has_value(&self, id: &str, v: &str) -> bool {
        self.present.contains(id) && self.values.get(id).map(|vs| vs.iter().any(|x| x == v)).unwrap_or(false)
    }

    /// returns (rule, description) for the first certain violation
    pub fn check(&self, st: &mut Stats) -> Option<(String, String)> {
        let c = self.c;
        // conflicts (direct declarations only: certain)
        for a in &c.args {
            if !self.present.contains(&a.id) {
                continue;
            }
            for x in &a.conflicts {
                for m in self.members(x) {
                    if m != a.id && self.present.contains(&m) {
                        // an override between the two removes one of them before validation
                        return Some(("conflict".into(), format!("{} conflicts_with {} and both are present ({} present)", a.id, x, m)));
                    }
                }
                st.count("relevant.conflict-half-present");
            }
            if a.exclusive && self.present.len() > 1 {
                return Some(("exclusive".into(), format!("exclusive {} present together with {:?}", a.id, self.present)));
            }
        }
        for g in &c.groups {
            let pm: Vec<&String> = g.members.iter().filter(|m| self.present.contains(*m)).collect();
            let distinct: BTreeSet<&String> = pm.iter().copied().collect();
            if !g.multiple && distinct.len() > 1 {
                return Some(("group-single".into(), format!("non-multiple group {} has members {:?} present", g.id, distinct)));
            }
            if !distinct.is_empty() {
                for x in &g.conflicts {
                    for m in self.members(x) {
                        if !g.members.contains(&m) && self.present.contains(&m) {
                            return Some(("conflict".into(), format!("group {} (member present) conflicts_with {} and {} is present", g.id, x, m)));
                        }
                    }
                }
            }
        }
        // requirements
        let negated = self.has_sub && (c.has(Setting::SubcommandNegatesReqs) || c.has(Setting::ArgsConflictsWithSubcommands));
        let exclusive_present = c.args.iter().any(|a| a.exclusive && self.present.contains(&a.id));
        let mut required: Vec<(String, String)> = vec![]; // (id, why)
        for a in &c.args {
            if a.required {
                required.push((a.id.clone(), "required(true)".into()));
            }
            if self.present.contains(&a.id) {
                for r in &a.requires {
                    required.push((r.clone(), format!("{} requires it", a.id)));
                }
                for (v, r) in &a.requires_ifs {
                    let hit = match v {
                        None => true,
                        Some(v) => self.has_value(&a.id, v),
                    };
                    if hit {
                        required.push((r.clone(), format!("{} requires_if {:?}", a.id, v)));
                    }
                }
            }
            let any_rule = !a.required_if_eq_any.is_empty() && a.required_if_eq_any.iter().any(|(o, v)| self.has_value(o, v));
            if any_rule {
                required.push((a.id.clone(), "required_if_eq_any".into()));
            }
            let all_rule = !a.required_if_eq_all.is_empty() && a.required_if_eq_all.iter().all(|(o, v)| self.has_value(o, v));
            if all_rule {
                required.push((a.id.clone(), "required_if_eq_all".into()));
            }
            let has_unless = !a.required_unless_any.is_empty() || !a.required_unless_all.is_empty();
            if has_unless {
                let any_ok = !a.required_unless_any.is_empty() && a.required_unless_any.iter().any(|x| self.is_present(x));
                let all_ok = !a.required_unless_all.is_empty() && a.required_unless_all.iter().all(|x| self.is_present(x));
                // the two "unless" conditions are alternatives
                if !any_ok && !all_ok {
                    required.push((a.id.clone(), "required_unless_present*".into()));
                }
            }
        }
        for g in &c.groups {
            if g.required {
                required.push((g.id.clone(), "required group".into()));
            }
            if self.is_present(&g.id) {
                for r in &g.requires {
                    required.push((r.clone(), format!("group {} requires it", g.id)));
                }
            }
        }
        for (id, why) in required {
            if self.is_present(&id) {
                st.count("relevant.requirement-satisfied");
                continue;
            }
            // documented exemptions
            if negated {
                st.count("relevant.exempt-subcommand");
                continue;
            }
            if exclusive_present {
                st.count("relevant.exempt-exclusive");
                continue;
            }
            // conflicts with something present: for a group, generously — its own conflicts, an
            // arg naming it, or any member blocked
            let mut blocked = false;
            for m in self.members(&id) {
                if self.conflict_partners(&m).iter().any(|p| self.present.contains(p)) {
                    blocked = true;
                }
            }
            if let Some(g) = c.group(&id) {
                for x in &g.conflicts {
                    if self.is_present(x) {
                        blocked = true;
                    }
                }
                for a in &c.args {
                    if self.present.contains(&a.id) && a.conflicts.contains(&g.id) {
                        blocked = true;
                    }
                }
            }
            if blocked {
                st.count("relevant.exempt-conflict");
                continue;
            }
            let kind = if c.group(&id).is_some() { "missing-required-group" } else { "missing-required" };
            return Some((kind.into(), format!("{} is required ({}) but absent; present = {:?}", id, why, self.present)));
        }
        None
    }
}

pub fn presence(c: &CmdSpec, m: &clap::ArgMatches) -> (BTreeSet<String>, BTreeMap<String, Vec<String>>) {
    let mut present = BTreeSet::new();
    let mut values = BTreeMap::new();
    for a in &c.args {
        let src = m.value_source(&a.id);
        if matches!(src, Some(ValueSource::CommandLine) | Some(ValueSource::EnvVariable)) {
            present.insert(a.id.clone());
        }
        if let Ok(Some(raw)) = m.try_get_raw(&a.id) {
            values.insert(a.id.clone(), raw.map(|v| v.to_string_lossy().into_owned()).collect::<Vec<_>>());
        }
    }
    (present, values)
}

pub fn case(seed: u64, st: &mut Stats) {
    let mut rng = Rng::new(seed);
    let with_overrides = rng.chance(1, 3);
    let (spec, env) = gen_spec(&mut rng, with_overrides);
    for i in 0..8 {
        let var = format!("CLAPR_{}", i);
        match env.get(&var) {
            Some(v) => std::env::set_var(&var, v),
            None => std::env::remove_var(&var),
        }
    }
    let cmd = match gate(&spec) {
        Ok(c) => c,
        Err(_) => {
            st.count("gate.rejected");
            return;
        }
    };
    st.count("gate.accepted");
    for _ in 0..6 {
        // random subset, each size equally likely
        let n = spec.args.len();
        let k = rng.below(n + 1);
        let mut order: Vec<usize> = (0..n).collect();
        rng.shuffle(&mut order);
        let mut argv: Vec<OsString> = vec!["prog".into()];
        let mut seq: Vec<usize> = order[..k].to_vec();
        if with_overrides && !seq.is_empty() && rng.coin() {
            // repeat something so that "given last" matters
            let again = *rng.pick(&seq);
            seq.push(again);
        }
        for &i in &seq {
            let a = &spec.args[i];
            let times = if a.act() == Act::Append { rng.range(1, 3) } else { 1 };
            if times > 1 {
                st.count("argv.append-several-occurrences");
            }
            for _ in 0..times {
                argv.push(format!("--{}", a.long.as_ref().unwrap()).into());
                if a.takes_values() {
                    if a.num_args == Some((0, 1)) && rng.coin() {
                        st.count("argv.occurrence-without-value");
                    } else {
                        argv.push((*rng.pick(&["v1", "v2", "v3"])).into());
                    }
                }
            }
        }
        let with_sub = !spec.subs.is_empty() && rng.chance(1, 3);
        if with_sub {
            argv.push("sub".into());
        }
        st.eval();
        st.nontrivial(mix(hash_str(&format!("{:?}{:?}", spec, env)), hash_str(&show_argv(&argv))));
        st.sample(|| format!("argv={} env={:?}", show_argv(&argv), env));
        let ctx = || format!("argv={} env={:?} | spec={}", show_argv(&argv), env, brief(&spec));
        match catch(|| cmd.clone().try_get_matches_from(argv.clone())) {
            Err(p) => st.violation(format!("panic:parse@{}", p.loc), format!("{} | {}", p.msg, ctx())),
            Ok(Err(e)) => st.count(&format!("result.err.{:?}", e.kind())),
            Ok(Ok(m)) => {
                st.count("result.ok");
                let (present, values) = presence(&spec, &m);
                let ev = Eval { c: &spec, present, values, has_sub: m.subcommand_name().is_some() };
                if let Some((rule, why)) = ev.check(st) {
                    let ov = if with_overrides && spec.args.iter().any(|a| !a.overrides.is_empty()) { ":with-overrides" } else { "" };
                    st.violation(format!("c03:{}{}", rule, ov), format!("{} | {}", why, ctx()));
                }
            }
        }
    }
    for i in 0..8 {
        std::env::remove_var(format!("CLAPR_{}", i));
    }
}

impl<'a> Eval<'a> {
    /// Is an ArgumentConflict justified by the supplied set? (sound: a superset of clap's rules)
    pub fn conflict_justified(&self, repeated: bool) -> bool {
        if repeated {
            return true;
        }
        for a in &self.present {
            if self.c.arg(a).map(|x| x.exclusive).unwrap_or(false) && self.present.len() > 1 {
                return true;
            }
            if self.conflict_partners(a).iter().any(|p| self.present.contains(p)) {
                return true;
            }
            // a declared conflict with a group counts the group as present through any member,
            // the argument itself included (degenerate but declared)
            if let Some(arg) = self.c.arg(a) {
                if arg.conflicts.iter().any(|x| self.is_present(x)) {
                    return true;
                }
            }
        }
        for g in &self.c.groups {
            if self.is_present(&g.id) && g.conflicts.iter().any(|x| self.is_present(x)) {
                return true;
            }
        }
        false
    }
    /// Is a MissingRequiredArgument justified: something some rule requires is absent
    pub fn missing_justified(&self) -> bool {
        let c = self.c;
        for a in &c.args {
            let absent = !self.present.contains(&a.id);
            if a.required && absent {
                return true;
            }
            if self.present.contains(&a.id) {
                for r in a.requires.iter().chain(a.requires_ifs.iter().map(|x| &x.1)) {
                    if !self.is_present(r) {
                        return true;
                    }
                }
            }
            if absent && (!a.required_if_eq_any.is_empty() || !a.required_if_eq_all.is_empty() || !a.required_unless_any.is_empty() || !a.required_unless_all.is_empty()) {
                return true;
            }
        }
        for g in &c.groups {
            if g.required && !self.is_present(&g.id) {
                return true;
            }
            if self.is_present(&g.id) && g.requires.iter().any(|r| !self.is_present(r)) {
                return true;
            }
        }
        false
    }
}
