//! C02 — every argv token is attributed exactly once, per the documented grammar.

use crate::core::*;
use crate::model::*;
use crate::spec::*;
use std::collections::BTreeMap;

pub fn walk_indices(spec: &CmdSpec, o: &LevelObs, r: &Rendered, lvl: usize) -> Option<String> {
    let empty = BTreeMap::new();
    let pl = r.places.get(lvl).unwrap_or(&empty);
    if let Some(d) = check_indices(spec, o, pl) {
        return Some(format!("level {}: {}", lvl, d));
    }
    if let Some((name, so)) = &o.sub {
        if let Some(s) = spec.sub(name) {
            return walk_indices(s, so, r, lvl + 1);
        }
    }
    None
}

pub fn feature_counts(st: &mut Stats, r: &Rendered) {
    for f in &r.features {
        st.count(&format!("spelling.{}", f));
    }
}

/// which of the rarer shapes a line has (coverage counters)
pub fn shape_counts(st: &mut Stats, c: &CmdSpec, li: &LevelIntent) {
    let mut poss: Vec<usize> = (0..c.args.len()).filter(|i| c.args[*i].is_positional()).collect();
    let declared = poss.clone();
    poss.sort_by_key(|i| c.args[*i].index.unwrap_or(0));
    if poss != declared {
        st.count("shape.positionals-declared-out-of-index-order");
    }
    let given: Vec<usize> = li.items.iter().filter_map(|it| if let Item::Pos { arg, .. } = it { Some(*arg) } else { None }).collect();
    if let Some(lp) = poss.last() {
        if c.args[*lp].last && given.contains(lp) && poss.iter().any(|p| !given.contains(p)) {
            st.count("shape.last-positional-after-omitted-one");
            if poss != declared {
                st.count("shape.last-positional-after-omitted-one.out-of-index-order");
            }
        }
    }
    if li.items.len() > 20 {
        st.count("shape.more-than-20-items");
    }
    if let Some((si, child)) = &li.sub {
        shape_counts(st, &c.subs[*si], child);
    }
}

/// one spec, several intents x spellings
pub fn run(st: &mut Stats, rng: &mut Rng, o: &ConvOpts, io: &IntentOpts, prefix: &str) {
    let spec = conv_cmd(rng, o);
    let cmd = match gate(&spec) {
        Ok(c) => c,
        Err(p) => {
            st.count("gate.rejected");
            st.note(|| format!("gate rejected: {} | {:?}", p.msg, spec));
            return;
        }
    };
    st.count("gate.accepted");
    let env = BTreeMap::new();
    for k in 0..4 {
        let intent = gen_intent(rng, &spec, io);
        let style = if k == 0 { Style::canonical() } else { Style::random(rng) };
        let r = render(rng, &spec, &intent, &style);
        shape_counts(st, &spec, &intent);
        st.eval();
        if r.argv.len() > 1 {
            st.nontrivial(mix(hash_str(&format!("{:?}", spec)), hash_str(&show_argv(&r.argv))));
        }
        st.sample(|| format!("argv={} intent={:?}", show_argv(&r.argv), intent.items));
        let res = catch(|| cmd.clone().try_get_matches_from(r.argv.clone()));
        let ctx = || format!("argv={} | intent={:?} | spec={}", show_argv(&r.argv), intent, brief(&spec));
        match res {
            Err(p) => st.violation(format!("panic:parse@{}", p.loc), format!("{} | {}", p.msg, ctx())),
            Ok(Err(e)) => {
                st.count("result.err");
                st.violation(
                    format!("{}:valid-line-rejected:{:?}", prefix, e.kind()),
                    format!("{} | {}", e.render().to_string().lines().next().unwrap_or(""), ctx()),
                );
            }
            Ok(Ok(m)) => {
                st.count("result.ok");
                feature_counts(st, &r);
                let obs = observe(&spec, &m, &[]);
                let exp = expect_level(&spec, &intent, &env);
                if let Some((kind, d)) = diff_level(&spec, &exp, &obs, "") {
                    st.violation(format!("{}:attribution:{}", prefix, kind), format!("{} | {}", d, ctx()));
                    continue;
                }
                if let Some(d) = walk_indices(&spec, &obs, &r, 0) {
                    st.violation(format!("{}:indices", prefix), format!("{} | {}", d, ctx()));
                }
            }
        }
    }
}

pub fn case(seed: u64, st: &mut Stats) {
    let mut rng = Rng::new(seed);
    let mut o = ConvOpts::full();
    o.hyphen_pos = true;
    o.explicit_index = true;
    let io = IntentOpts::default();
    run(st, &mut rng, &o, &io, "c02");
}
