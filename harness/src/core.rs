//! Shared plumbing: PRNG, panic capture, counters, violation records, JSON output.

use std::cell::RefCell;
use std::collections::{BTreeMap, HashSet};
use std::fmt::Write as _;
use std::panic::{catch_unwind, AssertUnwindSafe};

// ---------------------------------------------------------------- PRNG

pub fn splitmix(mut z: u64) -> u64 {
    z = z.wrapping_add(0x9E37_79B9_7F4A_7C15);
    z = (z ^ (z >> 30)).wrapping_mul(0xBF58_476D_1CE4_E5B9);
    z = (z ^ (z >> 27)).wrapping_mul(0x94D0_49BB_1331_11EB);
    z ^ (z >> 31)
}

pub fn mix(a: u64, b: u64) -> u64 {
    splitmix(a ^ splitmix(b.wrapping_add(0x1234_5678_9abc_def1)))
}

pub fn hash_str(s: &str) -> u64 {
    hash_bytes(s.as_bytes())
}

pub fn hash_bytes(s: &[u8]) -> u64 {
    // FNV-1a then splitmix; deterministic across runs (no RandomState).
    let mut h: u64 = 0xcbf2_9ce4_8422_2325;
    for b in s {
        h ^= *b as u64;
        h = h.wrapping_mul(0x1000_0000_01b3);
    }
    splitmix(h)
}

#[derive(Clone, Debug)]
pub struct Rng(pub u64);

impl Rng {
    pub fn new(seed: u64) -> Self {
        Rng(splitmix(seed) | 1)
    }
    pub fn next(&mut self) -> u64 {
        // xorshift64*
        let mut x = self.0;
        x ^= x >> 12;
        x ^= x << 25;
        x ^= x >> 27;
        self.0 = x;
        x.wrapping_mul(0x2545_F491_4F6C_DD1D)
    }
    /// uniform in 0..n (n > 0)
    pub fn below(&mut self, n: usize) -> usize {
        debug_assert!(n > 0);
        ((self.next() >> 11) % (n as u64)) as usize
    }
    /// inclusive range
    pub fn range(&mut self, lo: usize, hi: usize) -> usize {
        lo + self.below(hi - lo + 1)
    }
    pub fn chance(&mut self, num: usize, den: usize) -> bool {
        self.below(den) < num
    }
    pub fn coin(&mut self) -> bool {
        self.next() & (1 << 20) != 0
    }
    pub fn pick<'a, T>(&mut self, xs: &'a [T]) -> &'a T {
        debug_assert!(!xs.is_empty());
        &xs[self.below(xs.len())]
    }
    pub fn shuffle<T>(&mut self, xs: &mut [T]) {
        for i in (1..xs.len()).rev() {
            let j = self.below(i + 1);
            xs.swap(i, j);
        }
    }
    pub fn fork(&mut self) -> Rng {
        Rng::new(self.next())
    }
}

// ---------------------------------------------------------------- panic capture

#[derive(Clone, Debug)]
pub struct Panic {
    pub loc: String,
    pub msg: String,
}

thread_local! {
    static LAST_PANIC: RefCell<Option<Panic>> = const { RefCell::new(None) };
}

pub fn install_panic_hook() {
    std::panic::set_hook(Box::new(|info| {
        let loc = info
            .location()
            .map(|l| format!("{}:{}", short_path(l.file()), l.line()))
            .unwrap_or_else(|| "?".into());
        let msg = if let Some(s) = info.payload().downcast_ref::<&str>() {
            (*s).to_string()
        } else if let Some(s) = info.payload().downcast_ref::<String>() {
            s.clone()
        } else {
            "<non-string payload>".into()
        };
        if std::env::var_os("VERIF_BT").is_some() {
            eprintln!("PANIC {} {}\n{}", loc, msg, std::backtrace::Backtrace::force_capture());
        }
        let msg = msg.lines().next().unwrap_or("").chars().take(200).collect();
        LAST_PANIC.with(|p| *p.borrow_mut() = Some(Panic { loc, msg }));
    }));
}

/// `/repo/clap_builder/src/parser/parser.rs` -> `clap_builder/src/parser/parser.rs`
pub fn short_path(p: &str) -> String {
    if let Some(i) = p.find("/repo/") {
        return p[i + 6..].to_string();
    }
    if let Some(i) = p.find("/verif/") {
        return format!("verif:{}", &p[i + 7..]);
    }
    if let Some(i) = p.find("/library/") {
        return format!("std:{}", &p[i + 9..]);
    }
    if let Some(i) = p.find("/registry/src/") {
        let rest = &p[i + 14..];
        if let Some(j) = rest.find('/') {
            return format!("dep:{}", &rest[j + 1..]);
        }
    }
    p.to_string()
}

/// Run `f`, converting a panic into `Err(Panic)`.
pub fn catch<T>(f: impl FnOnce() -> T) -> Result<T, Panic> {
    LAST_PANIC.with(|p| *p.borrow_mut() = None);
    match catch_unwind(AssertUnwindSafe(f)) {
        Ok(v) => Ok(v),
        Err(_) => Err(LAST_PANIC.with(|p| p.borrow_mut().take()).unwrap_or(Panic {
            loc: "?".into(),
            msg: "?".into(),
        })),
    }
}

/// true iff the panic originated in the library under test (not in the harness or std called
/// from the harness). std/dep locations are attributed to clap only when raised inside a
/// `catch` that wrapped a clap call, which is the only place `catch` is used.
pub fn panic_in_harness(p: &Panic) -> bool {
    p.loc.starts_with("verif:")
}

// ---------------------------------------------------------------- thread cpu time

pub fn thread_cpu_ms() -> u64 {
    let mut ts = libc::timespec { tv_sec: 0, tv_nsec: 0 };
    // SAFETY: plain syscall writing into a local struct
    unsafe {
        libc::clock_gettime(libc::CLOCK_THREAD_CPUTIME_ID, &mut ts);
    }
    (ts.tv_sec as u64) * 1000 + (ts.tv_nsec as u64) / 1_000_000
}

// ---------------------------------------------------------------- JSON (writer only)

pub fn jstr(s: &str) -> String {
    let mut o = String::with_capacity(s.len() + 2);
    o.push('"');
    for c in s.chars() {
        match c {
            '"' => o.push_str("\\\""),
            '\\' => o.push_str("\\\\"),
            '\n' => o.push_str("\\n"),
            '\r' => o.push_str("\\r"),
            '\t' => o.push_str("\\t"),
            c if (c as u32) < 0x20 => {
                let _ = write!(o, "\\u{:04x}", c as u32);
            }
            c => o.push(c),
        }
    }
    o.push('"');
    o
}

/// printable rendering of raw bytes (argv tokens): UTF-8 kept, other bytes as \xNN
pub fn show_bytes(b: &[u8]) -> String {
    let mut o = String::new();
    let mut rest = b;
    while !rest.is_empty() {
        match std::str::from_utf8(rest) {
            Ok(s) => {
                o.push_str(s);
                break;
            }
            Err(e) => {
                let (ok, bad) = rest.split_at(e.valid_up_to());
                o.push_str(std::str::from_utf8(ok).unwrap());
                let n = e.error_len().unwrap_or(bad.len());
                for x in &bad[..n] {
                    let _ = write!(o, "\\x{:02X}", x);
                }
                rest = &bad[n..];
            }
        }
    }
    o
}

pub fn show_argv(argv: &[std::ffi::OsString]) -> String {
    use std::os::unix::ffi::OsStrExt;
    let v: Vec<String> = argv
        .iter()
        .map(|a| format!("{:?}", show_bytes(a.as_bytes())))
        .collect();
    format!("[{}]", v.join(", "))
}

// ---------------------------------------------------------------- stats / violations

#[derive(Clone, Debug)]
pub struct Violation {
    pub sig: String,
    pub detail: String,
    pub case_seed: u64,
}

pub struct Stats {
    pub tier_thorough: bool,
    pub verbose: bool,
    pub case_seed: u64,
    pub counters: BTreeMap<String, u64>,
    pub fps: HashSet<u64>,
    pub fp_cap: usize,
    pub distinct: u64,
    pub samples: Vec<String>,
    pub violations: Vec<Violation>,
    pub sig_counts: BTreeMap<String, u64>,
    pub evaluations: u64,
    pub harness_errors: Vec<String>,
    /// case seeds whose spec passed clap's validity gate (for the release-build replay tier)
    pub accepted_seeds: Vec<u64>,
}

impl Stats {
    pub fn new(thorough: bool) -> Self {
        Stats {
            tier_thorough: thorough,
            verbose: false,
            case_seed: 0,
            counters: BTreeMap::new(),
            fps: HashSet::new(),
            fp_cap: 60_000,
            distinct: 0,
            samples: Vec::new(),
            violations: Vec::new(),
            sig_counts: BTreeMap::new(),
            evaluations: 0,
            harness_errors: Vec::new(),
            accepted_seeds: Vec::new(),
        }
    }
    pub fn count(&mut self, k: &str) {
        self.add(k, 1);
    }
    pub fn add(&mut self, k: &str, n: u64) {
        if let Some(c) = self.counters.get_mut(k) {
            *c += n;
        } else {
            self.counters.insert(k.to_string(), n);
        }
    }
    /// one monitored execution
    pub fn eval(&mut self) {
        self.evaluations += 1;
    }
    /// register the fingerprint of a non-trivial case; returns true when new (to this shard)
    pub fn nontrivial(&mut self, fp: u64) -> bool {
        if self.fps.len() < self.fp_cap {
            if self.fps.insert(fp) {
                self.distinct += 1;
                return true;
            }
            false
        } else {
            // cap reached: stop counting (conservative lower bound)
            false
        }
    }
    pub fn sample(&mut self, f: impl FnOnce() -> String) {
        if self.samples.len() < 6 {
            let s = f();
            self.samples.push(s);
        }
    }
    pub fn violation(&mut self, sig: impl Into<String>, detail: impl Into<String>) {
        let sig = sig.into();
        let n = self.sig_counts.entry(sig.clone()).or_insert(0);
        *n += 1;
        if *n <= 3 {
            let detail = detail.into();
            if self.verbose {
                eprintln!("VIOLATION sig={} :: {}", sig, detail);
            }
            self.violations.push(Violation {
                sig,
                detail,
                case_seed: self.case_seed,
            });
        }
    }
    pub fn note(&mut self, f: impl FnOnce() -> String) {
        if self.verbose {
            eprintln!("{}", f());
        }
    }

    pub fn to_json(&self, property: &str, shard: usize, cases: u64, wall_ms: u128) -> String {
        let mut o = String::new();
        let _ = write!(
            o,
            "{{\"property\":{},\"shard\":{},\"cases\":{},\"evaluations\":{},\"distinct\":{},\"wall_ms\":{},",
            jstr(property),
            shard,
            cases,
            self.evaluations,
            self.distinct,
            wall_ms
        );
        o.push_str("\"counters\":{");
        let mut first = true;
        for (k, v) in &self.counters {
            if !first {
                o.push(',');
            }
            first = false;
            let _ = write!(o, "{}:{}", jstr(k), v);
        }
        o.push_str("},\"sig_counts\":{");
        first = true;
        for (k, v) in &self.sig_counts {
            if !first {
                o.push(',');
            }
            first = false;
            let _ = write!(o, "{}:{}", jstr(k), v);
        }
        o.push_str("},\"samples\":[");
        first = true;
        for s in &self.samples {
            if !first {
                o.push(',');
            }
            first = false;
            o.push_str(&jstr(s));
        }
        o.push_str("],\"violations\":[");
        first = true;
        for v in &self.violations {
            if !first {
                o.push(',');
            }
            first = false;
            // violations found by the deterministic enumeration are replayed by re-running that slice
            let cs = if v.case_seed == u64::MAX { format!("exhaustive:{}", shard) } else { v.case_seed.to_string() };
            let _ = write!(o, "{{\"sig\":{},\"detail\":{},\"case_seed\":\"{}\"}}", jstr(&v.sig), jstr(&v.detail), cs);
        }
        o.push_str("],\"harness_errors\":[");
        first = true;
        for s in self.harness_errors.iter().take(5) {
            if !first {
                o.push(',');
            }
            first = false;
            o.push_str(&jstr(s));
        }
        o.push_str("],\"fps\":[");
        first = true;
        for f in &self.fps {
            if !first {
                o.push(',');
            }
            first = false;
            let _ = write!(o, "{}", f >> 11); // 53 bits: exact in any JSON reader
        }
        o.push_str("]}");
        o
    }
}

/// helper: OsString from raw bytes
pub fn os(b: &[u8]) -> std::ffi::OsString {
    use std::os::unix::ffi::OsStringExt;
    std::ffi::OsString::from_vec(b.to_vec())
}

/// inverse of `show_bytes`: the text `\xHH` (two upper-case hex digits) stands for the raw byte
pub fn enc_escapes(s: &str) -> std::ffi::OsString {
    let b = s.as_bytes();
    let mut out = Vec::with_capacity(b.len());
    let mut i = 0;
    let hex = |c: u8| -> Option<u8> {
        match c {
            b'0'..=b'9' => Some(c - b'0'),
            b'A'..=b'F' => Some(c - b'A' + 10),
            _ => None,
        }
    };
    while i < b.len() {
        if b[i] == b'\\' && i + 3 < b.len() + 0 && b[i + 1] == b'x' {
            if let (Some(h), Some(l)) = (hex(b[i + 2]), hex(b[i + 3])) {
                out.push(h * 16 + l);
                i += 4;
                continue;
            }
        }
        out.push(b[i]);
        i += 1;
    }
    os(&out)
}

pub fn os_bytes(s: &std::ffi::OsStr) -> &[u8] {
    use std::os::unix::ffi::OsStrExt;
    s.as_bytes()
}

// ---------------------------------------------------------------- scratch directory for monitors that run external tools

static SCRATCH: std::sync::OnceLock<std::path::PathBuf> = std::sync::OnceLock::new();

pub fn set_scratch(p: std::path::PathBuf) {
    let _ = SCRATCH.set(p);
}

/// a directory private to this process (created on demand; the runner removes /verif/run/<prop> at the next run)
pub fn scratch() -> std::path::PathBuf {
    let p = SCRATCH.get().cloned().unwrap_or_else(|| std::env::temp_dir().join(format!("verif-mon-{}", std::process::id())));
    let _ = std::fs::create_dir_all(&p);
    p
}
