//! `mon <property> [--seed S] [--shard i] [--nshards n] [--cases N] [--ms T] [--out FILE]
//!      [--thorough] [--trace] [--case-seed X] [--list FILE]`
use harness::core::*;
use std::io::Write;
use std::sync::atomic::{AtomicU64, Ordering};
use std::time::Instant;

static CUR_CASE: AtomicU64 = AtomicU64::new(0);
static CUR_IDX: AtomicU64 = AtomicU64::new(u64::MAX);

fn main() {
    let args: Vec<String> = std::env::args().collect();
    if args.len() < 2 {
        eprintln!("usage: mon <property> ...");
        std::process::exit(64);
    }
    let prop = args[1].clone();
    let mut seed = 1u64;
    let mut shard = 0usize;
    let mut nshards = 1usize;
    let mut cases = u64::MAX;
    let mut ms = 10_000u128;
    let mut out: Option<String> = None;
    let mut thorough = false;
    let mut trace = false;
    let mut case_seed: Option<u64> = None;
    let mut skip_exhaustive = false;
    let mut exhaustive_only = false;
    let mut accepted_out: Option<String> = None;
    let mut seeds_file: Option<String> = None;
    let mut i = 2;
    while i < args.len() {
        let a = args[i].as_str();
        let mut val = || {
            i += 1;
            args[i].clone()
        };
        match a {
            "--seed" => seed = val().parse().unwrap(),
            "--shard" => shard = val().parse().unwrap(),
            "--nshards" => nshards = val().parse().unwrap(),
            "--cases" => cases = val().parse().unwrap(),
            "--ms" => ms = val().parse().unwrap(),
            "--out" => out = Some(val()),
            "--thorough" => thorough = true,
            "--trace" => trace = true,
            "--no-exhaustive" => skip_exhaustive = true,
            "--exhaustive-only" => {
                cases = 0;
                exhaustive_only = true;
            }
            "--accepted-out" => accepted_out = Some(val()),
            "--seeds-file" => seeds_file = Some(val()),
            "--case-seed" => case_seed = Some(val().parse().unwrap()),
            _ => {
                eprintln!("unknown arg {a}");
                std::process::exit(64);
            }
        }
        i += 1;
    }
    let mons = harness::monitors();
    let Some(m) = mons.iter().find(|m| m.id == prop) else {
        eprintln!("unknown property {prop}");
        std::process::exit(64);
    };
    install_panic_hook();
    if let Some(o) = &out {
        let base = std::path::Path::new(o).parent().unwrap_or(std::path::Path::new(".")).join(format!("tmp-shard{}", shard));
        set_scratch(base);
    }
    let mut st = Stats::new(thorough);

    if let Some(cs) = case_seed {
        st.verbose = true;
        st.case_seed = cs;
        let r = catch(|| (m.case)(cs, &mut st));
        if let Err(p) = r {
            if p.loc.starts_with("clap") {
                st.violation(format!("panic:uncaught@{}", p.loc), p.msg.clone());
            } else {
                eprintln!("HARNESS-ERROR {} {}", p.loc, p.msg);
                std::process::exit(2);
            }
        }
        println!("{}", st.to_json(&prop, 0, 1, 0));
        std::process::exit(if st.violations.is_empty() { 0 } else { 1 });
    }

    // watchdog: a case running > 20 s wall is reported and the process exits 4 (the runner
    // then re-runs that single case under RLIMIT_CPU to decide).
    std::thread::spawn(|| {
        let mut last = u64::MAX;
        let mut since = Instant::now();
        loop {
            std::thread::sleep(std::time::Duration::from_millis(500));
            let idx = CUR_IDX.load(Ordering::Relaxed);
            if idx != last {
                last = idx;
                since = Instant::now();
            } else if idx != u64::MAX && since.elapsed().as_secs() >= 20 {
                println!("{{\"hang_case_seed\":\"{}\"}}", CUR_CASE.load(Ordering::Relaxed));
                let _ = std::io::stdout().flush();
                std::process::exit(4);
            }
        }
    });

    let t0 = Instant::now();
    if let (Some(ex), false) = (m.exhaustive, skip_exhaustive) {
        CUR_IDX.store(u64::MAX - 1, Ordering::Relaxed);
        st.case_seed = u64::MAX;
        let r = catch(|| ex(shard, nshards, &mut st));
        if let Err(p) = r {
            if p.loc.starts_with("clap") {
                st.violation(format!("panic:uncaught@{}", p.loc), format!("in exhaustive part: {}", p.msg));
            } else {
                st.harness_errors.push(format!("exhaustive: {} {}", p.loc, p.msg));
            }
        }
    }
    let base = mix(seed, hash_str(&prop));
    let mut n = 0u64;
    // release-build replay tier: run exactly the case seeds a monitor build accepted
    let replay_seeds: Option<Vec<u64>> = seeds_file.as_ref().map(|f| {
        std::fs::read_to_string(f).unwrap_or_default().lines().filter_map(|l| l.trim().parse().ok()).collect()
    });
    while n < cases && t0.elapsed().as_millis() < ms {
        let cs = match &replay_seeds {
            Some(v) => match v.get(n as usize) {
                Some(s) => *s,
                None => break,
            },
            None => mix(base, (shard as u64) << 40 | n),
        };
        CUR_CASE.store(cs, Ordering::Relaxed);
        CUR_IDX.store(n, Ordering::Relaxed);
        if trace {
            eprintln!("TRACE {}", cs);
        }
        st.case_seed = cs;
        let r = catch(|| (m.case)(cs, &mut st));
        if let Err(p) = r {
            if p.loc.starts_with("clap") {
                st.violation(format!("panic:uncaught@{}", p.loc), p.msg.clone());
            } else {
                st.harness_errors.push(format!("case {}: {} {}", cs, p.loc, p.msg));
            }
        }
        n += 1;
    }
    CUR_IDX.store(u64::MAX, Ordering::Relaxed);
    if let Some(f) = accepted_out {
        let body: String = st.accepted_seeds.iter().map(|s| format!("{}\n", s)).collect();
        let _ = std::fs::write(f, body);
    }
    let js = st.to_json(&prop, shard, n, t0.elapsed().as_millis());
    match out {
        Some(p) => std::fs::write(p, js).unwrap(),
        None => println!("{}", js),
    }
    if exhaustive_only && !st.violations.is_empty() {
        std::process::exit(1);
    }
}
