use clap::{Arg, ArgAction, Command};
fn main() {
    let cmd = Command::new("prog").args_conflicts_with_subcommands(true)
        .arg(Arg::new("k").short('k').action(ArgAction::SetTrue))
        .arg(Arg::new("p0"))
        .subcommand(Command::new("status").arg(Arg::new("rest").num_args(0..).last(true).action(ArgAction::Append)));
    for argv in [vec!["prog","-k","status"], vec!["prog","-k","status","--","x"], vec!["prog","-k","status","--","--version"], vec!["prog","status","--","--version"], vec!["prog","-k","zzz","--","--version"]] {
        match cmd.clone().try_get_matches_from(argv.clone()) {
            Ok(m) => println!("{:?} -> Ok sub={:?} p0={:?}", argv, m.subcommand_name(), m.get_one::<String>("p0")),
            Err(e) => println!("{:?} -> {:?}: {}", argv, e.kind(), e.render().to_string().lines().next().unwrap_or("")),
        }
    }
}
