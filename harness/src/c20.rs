//! C20 — wrapping keeps every word, in order, within the width.
//!
//! Access without a hook: plain `textwrap::wrap` through `{author}`, `StyledStr::wrap` through
//! `{about}`, both inside literal `[`…`]` sentinels of a help template.

use crate::core::*;
use clap::Command;
use unicode_width::UnicodeWidthChar;

pub fn wrap_plain(t: &str, w: usize) -> Result<String, Panic> {
    catch(|| {
        let out = Command::new("p")
            .author(t.to_string())
            .help_template("[{author}]")
            .term_width(w)
            .render_help()
            .ansi()
            .to_string();
        out
    })
}

pub fn wrap_styled(t: &str, w: usize) -> Result<String, Panic> {
    catch(|| {
        let out = Command::new("p")
            .about(t.to_string())
            .help_template("[{about}]")
            .term_width(w)
            .render_help()
            .ansi()
            .to_string();
        out
    })
}

fn unsentinel(out: &str) -> Option<&str> {
    let s = out.strip_prefix('[')?;
    let s = s.strip_suffix('\n')?;
    s.strip_suffix(']')
}

fn vis_width(s: &str) -> usize {
    s.chars().map(|c| c.width().unwrap_or(0)).sum()
}

/// Alignment oracle. `strict`: plain mode (break only at the start of a maximal space run, exact
/// indent re-emitted). Non-strict (styled): break anywhere inside a space run, any indent of
/// spaces after it. Returns Err(reason).
pub fn align(t: &str, o: &str, strict: bool) -> Result<usize, String> {
    let t: Vec<char> = t.chars().collect();
    let o: Vec<char> = o.chars().collect();
    let (mut i, mut j) = (0usize, 0usize);
    let mut breaks = 0;
    // start of the current input line
    let mut line_start = 0usize;
    while i < t.len() || j < o.len() {
        if i < t.len() && j < o.len() && t[i] == o[j] {
            if t[i] == '\n' {
                line_start = i + 1;
            }
            i += 1;
            j += 1;
            continue;
        }
        // mismatch: must be an inserted break
        if !(j < o.len() && o[j] == '\n') {
            return Err(format!("content differs at input char {} / output char {} (not at an inserted break)", i, j));
        }
        if !(i < t.len() && t[i] == ' ') {
            // a run of zero spaces cannot be replaced — except the degenerate "space before end of
            // line" case handled below
            return Err(format!("break inserted at input char {} which is not a space run", i));
        }
        if strict && i > line_start && t[i - 1] == ' ' {
            return Err(format!("break inserted inside a space run at input char {} (run not consumed whole)", i));
        }
        // consume the run
        while i < t.len() && t[i] == ' ' {
            i += 1;
        }
        j += 1; // the inserted '\n'
        // indent = leading spaces of the current input line, when the line has a leading
        // whitespace-only word (i.e. starts with spaces)
        let mut k = line_start;
        while k < t.len() && t[k] == ' ' {
            k += 1;
        }
        let indent = k - line_start;
        if strict {
            for _ in 0..indent {
                if j < o.len() && o[j] == ' ' {
                    j += 1;
                } else {
                    return Err(format!("indent of {} spaces not re-emitted after break before input char {}", indent, i));
                }
            }
            if j < o.len() && o[j] == ' ' {
                return Err(format!("more than the line's indent ({}) emitted after a break", indent));
            }
        } else {
            // styled: the break may fall inside a space run, but what follows it is the line's
            // leading indent, no more and no less
            let mut got = 0;
            while j < o.len() && o[j] == ' ' {
                j += 1;
                got += 1;
            }
            if got != indent {
                return Err(format!("{} spaces emitted after a break before input char {}, the line's indent is {}", got, i, indent));
            }
        }
        breaks += 1;
    }
    Ok(breaks)
}

fn is_plain(t: &str) -> bool {
    !t.chars().any(|c| c.is_ascii_control() && c != '\n')
}

pub fn check_plain(st: &mut Stats, t: &str, w: usize) {
    st.eval();
    let out = match wrap_plain(t, w) {
        Ok(o) => o,
        Err(p) => {
            st.violation(format!("panic:wrap@{}", p.loc), format!("{} | text={:?} width={}", p.msg, t, w));
            return;
        }
    };
    let Some(o) = unsentinel(&out) else {
        st.violation("wrap:sentinel-lost", format!("text={:?} width={} out={:?}", t, w, out));
        return;
    };
    if w == 0 {
        if o != t {
            st.violation("wrap:width0-not-identity", format!("text={:?} out={:?}", t, o));
        }
        return;
    }
    match align(t, o, true) {
        Ok(b) => {
            if b > 0 {
                st.count("plain.with_breaks");
            } else {
                st.count("plain.no_breaks");
            }
        }
        Err(why) => {
            st.violation("wrap:content", format!("{} | text={:?} width={} out={:?}", why, t, w, o));
            return;
        }
    }
    // escape sequences (only CSI ... m is generated) count as zero width in the plain wrapper too
    let (t_stripped, _) = strip_sgr(t);
    if is_plain(&t_stripped) {
        if !is_plain(t) {
            st.count("plain.with_escapes");
        }
        for line in o.split('\n') {
            let (line_vis, _) = strip_sgr(line);
            let vis = line_vis.trim_end_matches(' ');
            if vis_width(vis) > w {
                let body = vis.trim_start_matches(' ');
                if body.contains(' ') {
                    st.violation(
                        "wrap:width",
                        format!("line {:?} is {} wide > {} and holds several words | text={:?} out={:?}", line, vis_width(vis), w, t, o),
                    );
                    return;
                }
                st.count("plain.overlong_single_word");
            }
        }
    }
}

/// strips CSI sequences (ESC [ params final) — the only kind the generator emits
fn strip_sgr(s: &str) -> (String, Vec<String>) {
    let mut out = String::new();
    let mut seqs = vec![];
    let cs: Vec<char> = s.chars().collect();
    let mut i = 0;
    while i < cs.len() {
        if cs[i] == '\x1b' && i + 1 < cs.len() && cs[i + 1] == '[' {
            let mut k = i + 2;
            while k < cs.len() && !('\x40'..='\x7e').contains(&cs[k]) {
                k += 1;
            }
            let end = (k + 1).min(cs.len());
            seqs.push(cs[i..end].iter().collect());
            i = end;
        } else {
            out.push(cs[i]);
            i += 1;
        }
    }
    (out, seqs)
}

pub fn check_styled(st: &mut Stats, t: &str, w: usize) {
    st.eval();
    let out = match wrap_styled(t, w) {
        Ok(o) => o,
        Err(p) => {
            st.violation(format!("panic:wrap-styled@{}", p.loc), format!("{} | text={:?} width={}", p.msg, t, w));
            return;
        }
    };
    let Some(o) = unsentinel(&out) else {
        st.violation("wrap:sentinel-lost", format!("styled text={:?} width={} out={:?}", t, w, out));
        return;
    };
    let (tv, tseq) = strip_sgr(t);
    let (ov, oseq) = strip_sgr(o);
    if tseq != oseq {
        st.violation("wrap:styled-escapes", format!("escape sequences changed: {:?} -> {:?} | text={:?} width={} out={:?}", tseq, oseq, t, w, o));
        return;
    }
    if !tseq.is_empty() {
        st.count("styled.with_escapes");
    }
    // documented final trim_end of the whole styled string: compare modulo trailing whitespace.
    // Escapes positioned inside the trimmed tail stay, which is fine for the visible content.
    let tv_t = tv.trim_end();
    let ov_t = ov.trim_end();
    if w == 0 {
        if ov_t != tv_t {
            st.violation("wrap:width0-not-identity", format!("styled text={:?} out={:?}", t, o));
        }
        return;
    }
    match align(tv_t, ov_t, false) {
        Ok(b) => {
            if b > 0 {
                st.count("styled.with_breaks");
            }
        }
        Err(why) => {
            st.violation("wrap:styled-content", format!("{} | text={:?} width={} out={:?}", why, t, w, o));
        }
    }
}

const SYMS: [&str; 7] = ["a", "bb", " ", "  ", "\n", "世", "e\u{301}"];

pub fn exhaustive(shard: usize, nshards: usize, st: &mut Stats) {
    let maxlen = if st.tier_thorough { 7 } else { 6 };
    let mut idx = 0u64;
    let mut n = 0u64;
    for len in 0..=maxlen {
        let total = (SYMS.len() as u64).pow(len as u32);
        for code in 0..total {
            if (idx % nshards as u64) as usize == shard {
                let mut t = String::new();
                let mut c = code;
                for _ in 0..len {
                    t.push_str(SYMS[(c % 7) as usize]);
                    c /= 7;
                }
                for w in 1..=8 {
                    check_plain(st, &t, w);
                }
                check_styled(st, &t, 1 + (code % 8) as usize);
                n += 1;
                st.nontrivial(hash_str(&t));
            }
            idx += 1;
        }
    }
    st.add("exhaustive.strings", n);
}

fn gen_word(rng: &mut Rng) -> String {
    let long = rng.chance(1, 10);
    let n = if long {
        if rng.chance(1, 20) {
            rng.range(100, 400)
        } else {
            rng.range(10, 30)
        }
    } else {
        rng.range(1, 8)
    };
    let mut s = String::new();
    for _ in 0..n {
        match rng.below(20) {
            0 => s.push('世'),
            1 => s.push_str("e\u{301}"),
            2 => s.push('\u{200d}'),
            3 => s.push('é'),
            4 => s.push('-'),
            5 => s.push('\u{1F600}'),
            // code points whose low byte is 0x20 / 0x0A (a byte-wise look at a char would see a space / a newline)
            6 => s.push(*rng.pick(&['\u{2020}', '\u{0420}', '\u{1F620}', '\u{4E20}', '\u{010A}', '\u{2C20}'])),
            _ => s.push((b'a' + rng.below(26) as u8) as char),
        }
    }
    s
}

pub fn gen_text(rng: &mut Rng, styled: bool) -> String {
    let maxw = match rng.below(40) {
        0 => 400,
        1..=8 => 60,
        _ => 12,
    };
    let nwords = rng.range(1, maxw);
    let mut s = String::new();
    if rng.chance(1, 4) {
        for _ in 0..rng.range(1, 6) {
            s.push(' ');
        }
    }
    for k in 0..nwords {
        if styled && rng.chance(1, 4) {
            s.push_str(*rng.pick(&["\x1b[1m", "\x1b[0m", "\x1b[31;1m", "\x1b[38;5;196m", "\x1b[m"]));
        }
        let mut wd = gen_word(rng);
        // (the letter that ends an SGR sequence, right behind one)
        if styled && s.ends_with('m') && s.contains('\x1b') && rng.chance(1, 5) {
            wd.insert(0, 'm');
        }
        if styled && rng.chance(1, 8) && wd.chars().count() > 1 {
            let cs: Vec<char> = wd.chars().collect();
            let cut = rng.range(1, cs.len() - 1);
            s.extend(cs[..cut].iter());
            s.push_str("\x1b[4m");
            s.extend(cs[cut..].iter());
        } else {
            s.push_str(&wd);
        }
        if k + 1 < nwords || rng.chance(1, 4) {
            match rng.below(12) {
                0 => {
                    s.push('\n');
                    if rng.chance(1, 2) {
                        for _ in 0..rng.range(1, 5) {
                            s.push(' ');
                        }
                    }
                }
                1 => s.push_str("  "),
                2 => s.push_str("    "),
                3 => s.push_str(" \n"),
                4 => s.push_str("\n\n"),
                _ => s.push(' '),
            }
        }
    }
    s
}

pub fn case(seed: u64, st: &mut Stats) {
    let mut rng = Rng::new(seed);
    let styled = rng.chance(1, 3);
    let t = gen_text(&mut rng, styled);
    let w = match rng.below(12) {
        0 => 0,
        1 => rng.range(1, 3),
        2 | 3 => rng.range(4, 12),
        // far end of "any width": beyond every line, powers of two, the largest values
        10 => *rng.pick(&[121usize, 200, 255, 256, 257, 1000, 65535, 65536, 1 << 31, 1 << 32, usize::MAX / 2, usize::MAX - 1, usize::MAX]),
        11 => rng.range(121, 2000),
        _ => rng.range(1, 120),
    };
    if w > 120 {
        st.count("width.beyond-120");
    }
    st.nontrivial(mix(hash_str(&t), w as u64));
    st.sample(|| format!("text={:?} width={} styled={}", t, w, styled));
    if styled {
        check_styled(st, &t, w);
        // the same text through the plain wrapper (author slot)
        check_plain(st, &t, w);
    } else {
        check_plain(st, &t, w);
        check_styled(st, &t, w);
    }
}
