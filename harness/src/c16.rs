//! C16 — generated completion scripts cover the whole command tree and work in bash.

use crate::core::*;
use crate::gen::*;
use crate::spec::*;
use clap_complete::aot::{generate, Shell};
use std::io::Write as _;

pub const GENS: [&str; 6] = ["bash", "zsh", "fish", "powershell", "elvish", "nushell"];

pub fn gen_script(which: &str, cmd: &clap::Command) -> Result<String, Panic> {
    catch(|| {
        let mut c = cmd.clone();
        let mut buf = vec![];
        match which {
            "bash" => generate(Shell::Bash, &mut c, "prog", &mut buf),
            "zsh" => generate(Shell::Zsh, &mut c, "prog", &mut buf),
            "fish" => generate(Shell::Fish, &mut c, "prog", &mut buf),
            "powershell" => generate(Shell::PowerShell, &mut c, "prog", &mut buf),
            "elvish" => generate(Shell::Elvish, &mut c, "prog", &mut buf),
            _ => generate(clap_complete_nushell::Nushell, &mut c, "prog", &mut buf),
        }
        String::from_utf8_lossy(&buf).into_owned()
    })
}

/// a wild tree fit for generators: marker names, no multicall / no_binary_name, texts filled
pub fn gen_tree(rng: &mut Rng, hostile_text: bool) -> CmdSpec {
    let o = WildOpts { max_args: 5, max_groups: 1, max_subs: 3, depth: 2, texts: true, hostile_text, env: false, ..Default::default() };
    let mut spec = wild(rng, &o);
    spec.settings.retain(|s| !matches!(s, Setting::Multicall | Setting::NoBinaryName));
    crate::c12::mark_pub(&mut spec);
    // name shapes the generators must cope with
    fn double_underscore(rng: &mut Rng, c: &mut CmdSpec) {
        for s in c.subs.iter_mut() {
            if rng.chance(1, 40) {
                s.name = s.name.replace("_cmd", "__cmd");
            }
            double_underscore(rng, s);
        }
    }
    double_underscore(rng, &mut spec);
    // sibling names where one is a string prefix of the other (`build` / `build-all`), in both
    // declaration orders
    fn prefix_siblings(rng: &mut Rng, c: &mut CmdSpec) {
        if c.subs.len() >= 2 && rng.chance(1, 6) {
            let (mut i, mut j) = (0, 1 + rng.below(c.subs.len() - 1));
            if rng.coin() {
                std::mem::swap(&mut i, &mut j);
            }
            let tail = *rng.pick(&["-all", "_x", "2", "-"]);
            c.subs[j].name = format!("{}{}", c.subs[i].name, tail);
        }
        for s in c.subs.iter_mut() {
            prefix_siblings(rng, s);
        }
    }
    prefix_siblings(rng, &mut spec);
    // equal names at different levels: a subcommand named like its parent (`tool tool`, `a a`)
    fn same_as_parent(rng: &mut Rng, c: &mut CmdSpec) {
        if !c.subs.is_empty() && rng.chance(1, 8) {
            let i = rng.below(c.subs.len());
            if !c.subs.iter().any(|s| s.name == c.name) {
                c.subs[i].name = c.name.clone();
            }
        }
        for s in c.subs.iter_mut() {
            same_as_parent(rng, s);
        }
    }
    same_as_parent(rng, &mut spec);
    // two trailing positionals in a leaf command (`items... ; modes...`, `items... -- mode`): the
    // shapes in which a generator may or may not write the second one; it carries possible values
    if rng.chance(1, 6) {
        fn leaf<'a>(rng: &mut Rng, c: &'a mut CmdSpec) -> &'a mut CmdSpec {
            if c.subs.is_empty() {
                return c;
            }
            let i = rng.below(c.subs.len());
            leaf(rng, &mut c.subs[i])
        }
        let l = leaf(rng, &mut spec);
        if !l.has(Setting::Hide) {
            l.args.retain(|a| !a.is_positional());
            let terminated = rng.coin();
            let second_last = !terminated || rng.coin();
            let n = l.args.len();
            let mut first = ArgSpec { id: format!("tp{}items", n), action: Some(Act::Append), num_args: Some((1, usize::MAX)), value_names: vec![format!("TP{}ITEMS", n)], ..Default::default() };
            if terminated {
                first.terminator = Some(";".into());
            }
            let mut second = ArgSpec { id: format!("tp{}mode", n), action: Some(Act::Append), value_names: vec![format!("TP{}MODE", n)], ..Default::default() };
            second.last = second_last;
            if !second_last || rng.coin() {
                second.num_args = Some((1, usize::MAX));
            } else {
                second.action = Some(Act::Set);
            }
            second.vp = Some(Vp::Possible(vec![
                Pv { name: format!("tp{}pvq0", n), aliases: vec![], hide: false, help: None },
                Pv { name: format!("tp{}pvq1", n), aliases: vec![], hide: false, help: None },
            ]));
            l.args.push(first);
            l.args.push(second);
        }
    }
    spec
}

/// number of option entries of the script that spell the short `-c`, in the shell's entry format
fn short_entries(g: &str, script: &str, c: char) -> usize {
    let count = |pat: &str| script.matches(pat).count();
    match g {
        "bash" => script
            .lines()
            .filter(|l| l.trim_start().starts_with("opts=\""))
            .map(|l| l.split(|ch: char| ch == ' ' || ch == '"').filter(|t| *t == format!("-{}", c)).count())
            .sum(),
        "zsh" => {
            // '<conflicts><*>-c[help]' and '<conflicts><*>-c+[help]:...'
            let mut n = 0;
            for pat in [format!("-{}[", c), format!("-{}+[", c)] {
                let mut from = 0;
                while let Some(i) = script[from..].find(&pat) {
                    let at = from + i;
                    if at > 0 && matches!(script.as_bytes()[at - 1], b'\'' | b')' | b'*') {
                        n += 1;
                    }
                    from = at + 1;
                }
            }
            n
        }
        "fish" => script.lines().map(|l| l.split(' ').collect::<Vec<_>>().windows(2).filter(|w| w[0] == "-s" && w[1] == c.to_string()).count()).sum(),
        "powershell" => count(&format!("::new('-{}'", c)),
        "elvish" => count(&format!("cand -{} '", c)),
        "nushell" => {
            count(&format!("(-{})", c))
                + script
                    .lines()
                    .filter(|l| {
                        let t = l.trim_start();
                        t.strip_prefix(&format!("-{}", c)).map(|r| r.is_empty() || r.starts_with(':') || r.starts_with(' ')).unwrap_or(false)
                    })
                    .count()
        }
        _ => 0,
    }
}

fn has_double_underscore(c: &CmdSpec) -> bool {
    c.name.contains("__") || c.subs.iter().any(has_double_underscore)
}

struct Expect {
    depth: usize,
    /// the level is a hidden subcommand or lies below one (its own name is not demanded, what it
    /// defines is: a hidden subcommand is still a subcommand level)
    hidden_level: bool,
    /// (item class, text that must occur)
    items: Vec<(&'static str, String)>,
}

fn expectations(c: &CmdSpec, depth: usize, inherited_hidden: bool, out: &mut Vec<Expect>) {
    let mut items = vec![];
    for a in &c.args {
        if a.hide || matches!(a.act(), Act::Help | Act::HelpShort | Act::HelpLong | Act::Version) {
            continue;
        }
        if let Some(l) = &a.long {
            items.push(("long", l.clone()));
        }
        for (al, vis) in &a.aliases {
            if *vis {
                // (the generators take aliases from `get_long_and_visible_aliases`, which is None
                // without a long: keyed apart, F31)
                items.push((if a.long.is_some() { "long-visible-alias" } else { "long-visible-alias-of-option-without-long" }, al.clone()));
            }
        }
        if !a.is_positional() {
            if let Some(c) = a.short {
                items.push(("short", c.to_string()));
            }
            for (c, vis) in &a.short_aliases {
                if *vis {
                    items.push((if a.short.is_some() { "short-visible-alias" } else { "short-visible-alias-of-option-without-short" }, c.to_string()));
                }
            }
        }
        if a.takes_values() && !a.hide_possible_values {
            if let Some(Vp::Possible(pvs)) = &a.vp {
                for p in pvs.iter().filter(|p| !p.hide) {
                    // exactly zsh's documented omission (F28): a `last` or multi-valued positional behind a
                    // catch-all, i.e. behind a multi-valued positional without a value terminator in a
                    // command without subcommands; behind a terminated one it has to be there
                    let after_variadic = a.is_positional()
                        && (a.last || a.eff_num_args().1 > 1)
                        && c.subs.is_empty()
                        && c.args.iter().take_while(|x| x.id != a.id).any(|x| x.is_positional() && x.eff_num_args().1 > 1 && x.terminator.is_none());
                    let class = if after_variadic {
                        "possible-value-of-positional-after-variadic"
                    } else if a.is_positional() {
                        "possible-value-of-positional"
                    } else if a.eff_num_args().0 == 0 {
                        "possible-value-of-option-with-optional-value"
                    } else {
                        "possible-value-of-option"
                    };
                    items.push((class, p.name.clone()));
                }
            }
        }
    }
    for s in &c.subs {
        if s.has(Setting::Hide) {
            continue;
        }
        items.push(("subcommand", s.name.clone()));
        for (al, vis) in &s.aliases {
            if *vis {
                items.push(("subcommand-visible-alias", al.clone()));
            }
        }
    }
    out.push(Expect { depth, hidden_level: inherited_hidden, items });
    for s in &c.subs {
        expectations(s, depth + 1, inherited_hidden || s.has(Setting::Hide), out);
    }
}

/// run the generated bash function on completion queries; returns replies per query
fn bash_queries(script: &str, queries: &[Vec<String>]) -> Result<Vec<Vec<String>>, String> {
    let dir = scratch();
    let path = dir.join("comp.bash");
    let mut f = std::fs::File::create(&path).map_err(|e| e.to_string())?;
    f.write_all(script.as_bytes()).map_err(|e| e.to_string())?;
    let mut driver = String::new();
    driver.push_str("q() { COMP_WORDS=(\"$@\"); COMP_CWORD=$(( ${#COMP_WORDS[@]} - 1 )); COMPREPLY=(); _prog prog; printf 'R:%s\\n' \"${COMPREPLY[@]}\"; echo END; }\n");
    for q in queries {
        driver.push_str("q");
        for w in q {
            driver.push_str(&format!(" '{}'", w.replace('\'', "'\\''")));
        }
        driver.push('\n');
    }
    f.write_all(b"\n").map_err(|e| e.to_string())?;
    f.write_all(driver.as_bytes()).map_err(|e| e.to_string())?;
    drop(f);
    let out = std::process::Command::new("bash")
        .arg("--norc")
        .arg("--noprofile")
        .arg(&path)
        .current_dir(&dir)
        .env_clear()
        .env("PATH", "/usr/bin:/bin")
        .output()
        .map_err(|e| e.to_string())?;
    if !out.status.success() {
        return Err(format!("bash exited with {:?}: {}", out.status.code(), String::from_utf8_lossy(&out.stderr)));
    }
    let stdout = String::from_utf8_lossy(&out.stdout);
    let stderr = String::from_utf8_lossy(&out.stderr);
    if !stderr.trim().is_empty() {
        return Err(format!("bash wrote to stderr: {}", stderr.chars().take(300).collect::<String>()));
    }
    let mut res = vec![];
    let mut cur = vec![];
    for l in stdout.lines() {
        if l == "END" {
            res.push(std::mem::take(&mut cur));
        } else if let Some(r) = l.strip_prefix("R:") {
            if !r.is_empty() {
                cur.push(r.to_string());
            }
        }
    }
    if res.len() != queries.len() {
        return Err(format!("{} query results for {} queries", res.len(), queries.len()));
    }
    Ok(res)
}

pub fn bash_syntax_ok(script: &str) -> Result<(), String> {
    let dir = scratch();
    let path = dir.join("syntax.bash");
    std::fs::write(&path, script).map_err(|e| e.to_string())?;
    let out = std::process::Command::new("bash").arg("-n").arg(&path).env_clear().env("PATH", "/usr/bin:/bin").output().map_err(|e| e.to_string())?;
    if out.status.success() && out.stderr.is_empty() {
        Ok(())
    } else {
        Err(String::from_utf8_lossy(&out.stderr).chars().take(300).collect())
    }
}

fn switches(c: &CmdSpec, inherited: &[&ArgSpec]) -> Vec<String> {
    let mut v = vec!["-h".to_string(), "--help".into(), "-V".into(), "--version".into()];
    for a in c.args.iter().chain(inherited.iter().copied()) {
        if let Some(s) = a.short {
            v.push(format!("-{}", s));
        }
        for (s, _) in &a.short_aliases {
            v.push(format!("-{}", s));
        }
        if let Some(l) = &a.long {
            v.push(format!("--{}", l));
        }
        for (l, _) in &a.aliases {
            v.push(format!("--{}", l));
        }
    }
    v
}

pub fn case(seed: u64, st: &mut Stats) {
    let mut rng = Rng::new(seed);
    let hostile = rng.chance(1, 3);
    let spec = gen_tree(&mut rng, hostile);
    let cmd = match gate(&spec) {
        Ok(c) => c,
        Err(_) => {
            st.count("gate.rejected");
            return;
        }
    };
    st.count("gate.accepted");
    st.nontrivial(hash_str(&format!("{:?}", spec)));
    {
        fn two_trailing(c: &CmdSpec) -> Option<bool> {
            if let Some(a) = c.args.iter().find(|a| a.id.starts_with("tp") && a.id.ends_with("items")) {
                return Some(a.terminator.is_some());
            }
            c.subs.iter().find_map(two_trailing)
        }
        match two_trailing(&spec) {
            Some(true) => st.count("shape.two-trailing-positionals.first-terminated"),
            Some(false) => st.count("shape.two-trailing-positionals.first-catch-all"),
            None => {}
        }
    }
    let dunder = has_double_underscore(&spec);
    let ctx = || format!("spec={}", brief(&spec));
    let mut exps = vec![];
    expectations(&spec, 0, false, &mut exps);
    let mut bash_script = None;
    for g in GENS {
        st.eval();
        let s1 = match gen_script(g, &cmd) {
            Ok(s) => s,
            Err(p) => {
                let sig = if g == "bash" && dunder && p.loc.contains("generator/utils.rs") {
                    "c16:panic:bash:name-contains-double-underscore".to_string()
                } else {
                    format!("panic:gen-{}@{}", g, p.loc)
                };
                st.violation(sig, format!("{} | {}", p.msg, ctx()));
                continue;
            }
        };
        st.count(&format!("generated.{}", g));
        if let Ok(s2) = gen_script(g, &cmd) {
            if s1 != s2 {
                st.violation(format!("c16:nondeterministic:{}", g), ctx());
            }
        }
        // mentions per supported level
        let max_depth = if g == "fish" { 2 } else { usize::MAX };
        'outer: for e in &exps {
            if e.depth > max_depth {
                continue;
            }
            for (class, text) in &e.items {
                if class.starts_with("short") {
                    continue; // one character: counted per shell format below
                }
                st.count(if e.hidden_level { "mention.checked-inside-hidden-subcommand" } else { "mention.checked" });
                if !s1.contains(text.as_str()) {
                    st.violation(
                        format!("c16:not-mentioned:{}:{}", g, class),
                        format!("{:?} (depth {}) does not occur in the {} script | {}", text, e.depth, g, ctx()),
                    );
                    break 'outer;
                }
            }
        }
        // shorts: a single character cannot be searched as a marker; per character the script must
        // hold at least as many option entries spelling `-c` (in the shell's own entry format) as
        // there are (level, visible argument) pairs carrying it
        let mut want: std::collections::BTreeMap<(char, &'static str), usize> = Default::default();
        for e in exps.iter().filter(|e| e.depth <= max_depth && !e.hidden_level) {
            for (class, text) in e.items.iter().filter(|(c, _)| c.starts_with("short")) {
                *want.entry((text.chars().next().unwrap(), class)).or_default() += 1;
            }
        }
        let mut per_char: std::collections::BTreeMap<char, (usize, &'static str)> = Default::default();
        for ((c, class), n) in want {
            let e = per_char.entry(c).or_insert((0, class));
            e.0 += n;
            // the most specific class among the carriers names the violation
            let rank = |c: &str| if c.ends_with("without-short") { 2 } else if c == "short-visible-alias" { 1 } else { 0 };
            if rank(class) > rank(e.1) {
                e.1 = class;
            }
        }
        for (c, (n, class)) in per_char {
            st.count("mention.short-checked");
            let have = short_entries(g, &s1, c);
            if have < n {
                st.violation(
                    format!("c16:not-mentioned:{}:{}", g, class),
                    format!("-{} is carried by {} visible (level, argument) pairs but the {} script has {} entries for it | {}", c, n, g, have, ctx()),
                );
                break;
            }
        }
        if g == "bash" {
            bash_script = Some(s1);
        }
    }
    // bash: syntax + executed queries
    let Some(script) = bash_script else { return };
    st.eval();
    if let Err(e) = bash_syntax_ok(&script) {
        st.violation("c16:bash-syntax", format!("bash -n: {} | {}", e, ctx()));
        return;
    }
    st.count("bash.syntax-ok");
    // queries for every non-hidden path
    struct Q<'a> {
        words: Vec<String>,
        level: &'a CmdSpec,
        inherited: Vec<&'a ArgSpec>,
    }
    let mut qs: Vec<Q> = vec![];
    fn paths<'a>(c: &'a CmdSpec, words: Vec<String>, inherited: Vec<&'a ArgSpec>, rng: &mut Rng, qs: &mut Vec<Q<'a>>) {
        let mut partials: Vec<String> = vec!["".into(), "-".into(), "--".into()];
        for a in &c.args {
            if let Some(l) = &a.long {
                partials.push(format!("--{}", l.chars().take(rng.range(1, 4)).collect::<String>()));
            }
        }
        for s in &c.subs {
            // a strict prefix: the full name would select the subcommand
            partials.push(s.name.chars().take(rng.range(1, s.name.chars().count() - 1)).collect());
        }
        for p in partials {
            let mut w = words.clone();
            w.push(p);
            qs.push(Q { words: w, level: c, inherited: inherited.clone() });
        }
        let mut down = inherited.clone();
        for a in &c.args {
            if a.global {
                down.push(a);
            }
        }
        for s in &c.subs {
            // names bash would word-split or glob are not addressed
            let mut w = words.clone();
            w.push(s.name.clone());
            paths(s, w, down.clone(), rng, qs);
        }
    }
    paths(&spec, vec!["prog".into()], vec![], &mut rng, &mut qs);
    let queries: Vec<Vec<String>> = qs.iter().map(|q| q.words.clone()).collect();
    let replies = match bash_queries(&script, &queries) {
        Ok(r) => r,
        Err(e) => {
            st.violation("c16:bash-run", format!("{} | {}", e, ctx()));
            return;
        }
    };
    for (q, rep) in qs.iter().zip(replies.iter()) {
        st.count("bash.queries");
        let cur = q.words.last().unwrap();
        let sw = switches(q.level, &q.inherited);
        let c2 = || format!("COMP_WORDS={:?} COMPREPLY={:?} | {}", q.words, rep, ctx());
        if cur.starts_with('-') {
            for r in rep {
                if !sw.contains(r) {
                    st.violation("c16:bash-offers-undefined-option", format!("{:?} | {}", r, c2()));
                    return;
                }
                if !r.starts_with(cur.as_str()) {
                    st.violation("c16:bash-reply-does-not-extend-word", format!("{:?} | {}", r, c2()));
                    return;
                }
            }
            for a in q.level.args.iter().filter(|a| !a.hide) {
                for l in a.long.iter().chain(a.aliases.iter().filter(|(_, v)| *v).map(|(l, _)| l)) {
                    let full = format!("--{}", l);
                    if full.starts_with(cur.as_str()) && !rep.contains(&full) {
                        let sfx = if a.long.is_none() { ":long-visible-alias-of-option-without-long" } else { "" };
                        st.violation(format!("c16:bash-misses-option{}", sfx), format!("{:?} | {}", full, c2()));
                        return;
                    }
                }
            }
        } else {
            let mut names: Vec<String> = vec!["help".into()];
            for s in &q.level.subs {
                names.push(s.name.clone());
                names.extend(s.aliases.iter().map(|(a, _)| a.clone()));
            }
            let mut pvs: Vec<String> = vec![];
            for a in q.level.args.iter().filter(|a| a.is_positional()) {
                if let Some(Vp::Possible(p)) = &a.vp {
                    pvs.extend(p.iter().map(|x| x.name.clone()));
                }
                if matches!(a.vp, Some(Vp::Bool)) {
                    pvs.extend(["true".to_string(), "false".to_string()]);
                }
                if matches!(a.vp, Some(Vp::Boolish) | Some(Vp::Falsey)) {
                    pvs.extend(["true", "false", "yes", "no", "on", "off", "y", "n", "t", "f", "1", "0"].iter().map(|s| s.to_string()));
                }
            }
            for r in rep {
                let ok = sw.contains(r) || names.contains(r) || pvs.contains(r) || r.starts_with('<') || r.starts_with('[');
                if !ok {
                    st.violation("c16:bash-offers-undefined-word", format!("{:?} | {}", r, c2()));
                    return;
                }
            }
            for s in q.level.subs.iter().filter(|s| !s.has(Setting::Hide)) {
                for n in std::iter::once(&s.name).chain(s.aliases.iter().filter(|(_, v)| *v).map(|(a, _)| a)) {
                    if n.starts_with(cur.as_str()) && !rep.contains(n) {
                        // the script's walk includes the word under the cursor: a partial word that is
                        // also the complete name of a sibling is taken as already entered (F29)
                        let complete_sibling = q.level.subs.iter().any(|x| x.name == *cur || x.aliases.iter().any(|(a, _)| a == cur));
                        let sfx = if complete_sibling { ":partial-word-is-a-complete-sibling-name" } else { "" };
                        st.violation(format!("c16:bash-misses-subcommand{}", sfx), format!("{:?} | {}", n, c2()));
                        return;
                    }
                }
            }
        }
    }
}
