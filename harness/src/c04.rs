//! C04 — typed values are exactly the value parser's language; typed access is non-destructive
//! on failure.

use crate::core::*;
use clap::builder::{RangedI64ValueParser, RangedU64ValueParser, TypedValueParser};
use clap::error::ErrorKind;
use clap::{Arg, ArgAction, Command};
use std::ffi::{OsStr, OsString};
use std::ops::Bound;

// ------------------------------------------------------------------ decimal model (no machine-int parsing)

#[derive(Clone, Copy, PartialEq, Debug)]
enum Dec {
    /// not of the shape [+-]?[0-9]+
    Bad,
    /// syntactically fine, magnitude beyond i128 comfort: outside every range
    Huge(bool),
    Val(i128),
}

fn dec(s: &str) -> (Dec, Option<char>) {
    let b = s.as_bytes();
    let (sign, digits) = match b.first() {
        Some(b'+') => (Some('+'), &b[1..]),
        Some(b'-') => (Some('-'), &b[1..]),
        _ => (None, b),
    };
    if digits.is_empty() || !digits.iter().all(|c| c.is_ascii_digit()) {
        return (Dec::Bad, sign);
    }
    let mut k = 0;
    while k + 1 < digits.len() && digits[k] == b'0' {
        k += 1;
    }
    let sig = &digits[k..];
    if sig.len() > 30 {
        return (Dec::Huge(sign == Some('-')), sign);
    }
    let mut v: i128 = 0;
    for c in sig {
        v = v * 10 + (*c - b'0') as i128;
    }
    if sign == Some('-') {
        v = -v;
    }
    (Dec::Val(v), sign)
}

fn in_bounds(v: i128, lo: Bound<i128>, hi: Bound<i128>) -> bool {
    (match lo {
        Bound::Included(l) => v >= l,
        Bound::Excluded(l) => v > l,
        Bound::Unbounded => true,
    }) && (match hi {
        Bound::Included(h) => v <= h,
        Bound::Excluded(h) => v < h,
        Bound::Unbounded => true,
    })
}

fn b128(b: Bound<i64>) -> Bound<i128> {
    match b {
        Bound::Included(x) => Bound::Included(x as i128),
        Bound::Excluded(x) => Bound::Excluded(x as i128),
        Bound::Unbounded => Bound::Unbounded,
    }
}

pub fn spellings(v: i128) -> Vec<String> {
    let p = v.to_string();
    let mut out = vec![p.clone()];
    if v >= 0 {
        out.push(format!("+{}", p));
        out.push(format!("0{}", p));
        out.push(format!("000{}", p));
        out.push(format!("+00{}", p));
        if v == 0 {
            out.push("-0".into());
            out.push("-000".into());
        }
    } else {
        let mag = &p[1..];
        out.push(format!("-0{}", mag));
        out.push(format!("-00{}", mag));
    }
    out.push(format!(" {}", p));
    out.push(format!("{} ", p));
    out.push(format!("{}x", p));
    out.push(format!("{}.0", p));
    out.push(format!("{}e0", p));
    out
}

pub const JUNK: &[&str] = &[
    "", "+", "-", "--1", "+-1", "-+1", "0x10", "1_000", "１２", "٣", "1e3", "1.5", "∞", "NaN", "one", " ", "\t5", "5\n", "٠",
    "1234567890123456789012345678901234567890", "-1234567890123456789012345678901234567890",
    "0000000000000000000000000000000000000000000000000000000000000000000000001",
];

fn cmd_and_arg() -> (Command, Arg) {
    // value parsers are handed a *built* argument by the real parser; do the same
    let mut cmd = Command::new("p").arg(Arg::new("num").long("num-markerq7").action(ArgAction::Set));
    cmd.build();
    let arg = cmd.get_arguments().find(|a| a.get_id() == "num").unwrap().clone();
    (Command::new("p"), arg)
}

struct RangeCase {
    lo: Bound<i64>,
    hi: Bound<i64>,
}

fn range_cases(tmin: i128, tmax: i128, wide: bool) -> Vec<RangeCase> {
    let clamp = |v: i128| v.max(i64::MIN as i128).min(i64::MAX as i128) as i64;
    let mut pts: Vec<i64> = vec![clamp(tmin), clamp(tmin + 1), -1, 0, 1, clamp(tmax - 1), clamp(tmax)];
    if wide {
        pts.push(clamp(tmin - 3));
        pts.push(clamp(tmax + 3));
        pts.push(i64::MIN);
        pts.push(i64::MAX);
    }
    pts.retain(|p| wide || ((*p as i128) >= tmin && (*p as i128) <= tmax));
    pts.sort();
    pts.dedup();
    let mut out = vec![];
    for &a in &pts {
        for &b in &pts {
            for lk in 0..3 {
                for hk in 0..3 {
                    let lo = match lk {
                        0 => Bound::Included(a),
                        1 => Bound::Excluded(a),
                        _ => Bound::Unbounded,
                    };
                    let hi = match hk {
                        0 => Bound::Included(b),
                        1 => Bound::Excluded(b),
                        _ => Bound::Unbounded,
                    };
                    if (lk == 2 && a != pts[0]) || (hk == 2 && b != pts[0]) {
                        continue; // unbounded once per other side
                    }
                    out.push(RangeCase { lo, hi });
                }
            }
        }
    }
    out
}

fn candidates(tmin: i128, tmax: i128, lo: Bound<i64>, hi: Bound<i64>) -> Vec<i128> {
    let mut base: Vec<i128> = vec![tmin, tmax, 0, i64::MIN as i128, i64::MAX as i128, u64::MAX as i128, 1i128 << 63, -(1i128 << 63), 1i128 << 64];
    for b in [lo, hi] {
        match b {
            Bound::Included(x) | Bound::Excluded(x) => base.push(x as i128),
            _ => {}
        }
    }
    let mut out = vec![];
    for b in base {
        for d in -2..=2 {
            out.push(b + d);
        }
    }
    out.sort();
    out.dedup();
    out
}

fn check_err(st: &mut Stats, who: &str, s: &[u8], e: &clap::Error, expect: &[ErrorKind], must_name: bool) {
    if !expect.contains(&e.kind()) {
        st.violation(
            format!("vp:{}:wrong-error-kind:{:?}", who, e.kind()),
            format!("input {:?} rejected with {:?}, expected one of {:?}", show_bytes(s), e.kind(), expect),
        );
    }
    match catch(|| e.render().to_string()) {
        Err(p) => st.violation(format!("panic:vp-render@{}", p.loc), format!("{} input {:?}", p.msg, show_bytes(s))),
        Ok(r) => {
            if must_name && std::str::from_utf8(s).is_ok() && !r.contains("num-markerq7") {
                st.violation(format!("vp:{}:error-does-not-name-arg", who), format!("input {:?} error: {:?}", show_bytes(s), r));
            }
            // the clause has no exception for raw values that are not UTF-8 (F38: only the bool
            // parser names the argument then; keyed per parser family)
            if must_name && std::str::from_utf8(s).is_err() && !r.contains("num-markerq7") {
                st.violation(format!("vp:{}:non-utf8-rejection-does-not-name-arg", who), format!("input {:?} error: {:?}", show_bytes(s), r));
            }
        }
    }
}

macro_rules! ranged_i64_family {
    ($fname:ident, $t:ty) => {
        fn $fname(st: &mut Stats, lo: Bound<i64>, hi: Bound<i64>, base_full: bool, inputs: &[Vec<u8>], real_parse: bool, compose: usize) {
            let who = stringify!($t);
            let tmin = <$t>::MIN as i128;
            let tmax = <$t>::MAX as i128;
            let parser = match catch(|| {
                let base = if base_full { RangedI64ValueParser::<$t>::new() } else { clap::value_parser!($t) };
                // the same range declared in one call or narrowed side by side (an open side keeps
                // what was declared before)
                match compose {
                    1 => base.range((lo, Bound::Unbounded)).range((Bound::Unbounded, hi)),
                    2 => base.range((Bound::Unbounded, hi)).range((lo, Bound::Unbounded)),
                    3 => base.range((lo, hi)).range(..),
                    _ => base.range((lo, hi)),
                }
            }) {
                Ok(p) => p,
                Err(_) => {
                    st.count("ranged.config_rejected");
                    return;
                }
            };
            let (cmd, arg) = cmd_and_arg();
            let full = cmd.clone().arg(Arg::new("num").long("num-markerq7").action(ArgAction::Set).value_parser(parser.clone()));
            for s in inputs {
                st.eval();
                let os = crate::core::os(s);
                let expect: Result<i128, ()> = match std::str::from_utf8(s) {
                    Err(_) => Err(()),
                    Ok(u) => match dec(u).0 {
                        Dec::Val(v) if in_bounds(v, b128(lo), b128(hi)) && v >= tmin && v <= tmax => Ok(v),
                        _ => Err(()),
                    },
                };
                let got = catch(|| parser.parse_ref(&cmd, Some(&arg), &os));
                let got = match got {
                    Ok(g) => g,
                    Err(p) => {
                        st.violation(format!("panic:vp@{}", p.loc), format!("{} | {} {:?}..{:?} input {:?}", p.msg, who, lo, hi, show_bytes(s)));
                        continue;
                    }
                };
                match (&got, expect) {
                    (Ok(v), Ok(m)) => {
                        st.count("ranged.accepted");
                        if (*v as i128) != m {
                            st.violation(format!("vp:{}:wrong-value", who), format!("input {:?} gave {} expected {} (range {:?}..{:?})", show_bytes(s), v, m, lo, hi));
                        }
                    }
                    (Err(e), Err(())) => {
                        st.count("ranged.rejected");
                        let kinds: &[ErrorKind] = if std::str::from_utf8(s).is_err() { &[ErrorKind::InvalidUtf8] } else { &[ErrorKind::ValueValidation] };
                        check_err(st, who, s, e, kinds, true);
                    }
                    (Ok(v), Err(())) => {
                        st.violation(format!("vp:{}:accepted-outside-language", who), format!("input {:?} accepted as {} but is outside range {:?}..{:?} ∩ {}", show_bytes(s), v, lo, hi, who));
                    }
                    (Err(e), Ok(m)) => {
                        st.violation(format!("vp:{}:rejected-inside-language", who), format!("input {:?} (= {}) rejected ({:?}) but lies in range {:?}..{:?} ∩ {}", show_bytes(s), m, e.kind(), lo, hi, who));
                    }
                }
                if real_parse {
                    let mut a = b"--num-markerq7=".to_vec();
                    a.extend_from_slice(s);
                    let r = catch(|| full.clone().try_get_matches_from(vec![OsString::from("p"), crate::core::os(&a)]));
                    match r {
                        Err(p) => st.violation(format!("panic:vp-parse@{}", p.loc), format!("{} input {:?}", p.msg, show_bytes(s))),
                        Ok(Ok(m)) => {
                            let v = m.get_one::<$t>("num").copied();
                            if got.as_ref().ok().copied() != v {
                                st.violation(format!("vp:{}:parse-vs-parse_ref", who), format!("input {:?}: through a real parse {:?}, parse_ref {:?}", show_bytes(s), v, got.as_ref().ok()));
                            }
                            let raw = m.get_raw("num").and_then(|mut r| r.next().map(|x| x.to_os_string()));
                            if raw.as_deref() != Some(os.as_os_str()) {
                                st.violation(format!("vp:{}:raw-differs", who), format!("input {:?}: raw value reported {:?}", show_bytes(s), raw));
                            }
                            st.count("ranged.real_parse_ok");
                        }
                        Ok(Err(e)) => {
                            if got.is_ok() {
                                st.violation(format!("vp:{}:parse-vs-parse_ref", who), format!("input {:?}: real parse fails ({:?}) but parse_ref accepts", show_bytes(s), e.kind()));
                            } else if e.kind() != got.as_ref().err().unwrap().kind() {
                                st.violation(format!("vp:{}:parse-kind-differs", who), format!("input {:?}: real parse {:?} vs parse_ref {:?}", show_bytes(s), e.kind(), got.as_ref().err().unwrap().kind()));
                            }
                            st.count("ranged.real_parse_err");
                        }
                    }
                }
            }
        }
    };
}

ranged_i64_family!(ranged_i8, i8);
ranged_i64_family!(ranged_i16, i16);
ranged_i64_family!(ranged_i32, i32);
ranged_i64_family!(ranged_i64, i64);
ranged_i64_family!(ranged_u8, u8);
ranged_i64_family!(ranged_u16, u16);
ranged_i64_family!(ranged_u32, u32);

fn ranged_u64(st: &mut Stats, lo: Bound<u64>, hi: Bound<u64>, inputs: &[Vec<u8>], compose: usize) {
    let parser = match catch(|| {
        let base = if compose >= 4 { clap::value_parser!(u64) } else { RangedU64ValueParser::<u64>::new() };
        match compose % 4 {
            1 => base.range((lo, Bound::Unbounded)).range((Bound::Unbounded, hi)),
            2 => base.range((Bound::Unbounded, hi)).range((lo, Bound::Unbounded)),
            3 => base.range((lo, hi)).range(..),
            _ => base.range((lo, hi)),
        }
    }) {
        Ok(p) => p,
        Err(_) => {
            st.count("ranged.config_rejected");
            return;
        }
    };
    let (cmd, arg) = cmd_and_arg();
    let b = |b: Bound<u64>| match b {
        Bound::Included(x) => Bound::Included(x as i128),
        Bound::Excluded(x) => Bound::Excluded(x as i128),
        Bound::Unbounded => Bound::Unbounded,
    };
    for s in inputs {
        st.eval();
        let os = crate::core::os(s);
        let mut dont_care = false;
        let expect: Result<i128, ()> = match std::str::from_utf8(s) {
            Err(_) => Err(()),
            Ok(u) => match dec(u) {
                (Dec::Val(0), Some('-')) => {
                    // `-0` for an unsigned target: notation question the property leaves open
                    dont_care = true;
                    Err(())
                }
                (_, Some('-')) => Err(()),
                (Dec::Val(v), _) if in_bounds(v, b(lo), b(hi)) && v >= 0 && v <= u64::MAX as i128 => Ok(v),
                _ => Err(()),
            },
        };
        if dont_care {
            continue;
        }
        let got = match catch(|| parser.parse_ref(&cmd, Some(&arg), &os)) {
            Ok(g) => g,
            Err(p) => {
                st.violation(format!("panic:vp@{}", p.loc), format!("{} | u64 input {:?}", p.msg, show_bytes(s)));
                continue;
            }
        };
        match (&got, expect) {
            (Ok(v), Ok(m)) => {
                st.count("ranged.accepted");
                if (*v as i128) != m {
                    st.violation("vp:u64:wrong-value", format!("input {:?} gave {} expected {}", show_bytes(s), v, m));
                }
            }
            (Err(e), Err(())) => {
                st.count("ranged.rejected");
                let kinds: &[ErrorKind] = if std::str::from_utf8(s).is_err() { &[ErrorKind::InvalidUtf8] } else { &[ErrorKind::ValueValidation] };
                check_err(st, "u64", s, e, kinds, true);
            }
            (Ok(v), Err(())) => st.violation("vp:u64:accepted-outside-language", format!("input {:?} accepted as {} (range {:?}..{:?})", show_bytes(s), v, lo, hi)),
            (Err(e), Ok(m)) => st.violation("vp:u64:rejected-inside-language", format!("input {:?} (= {}) rejected {:?} (range {:?}..{:?})", show_bytes(s), m, e.kind(), lo, hi)),
        }
    }
}

fn inputs_for(tmin: i128, tmax: i128, lo: Bound<i64>, hi: Bound<i64>) -> Vec<Vec<u8>> {
    let mut v: Vec<Vec<u8>> = vec![];
    for c in candidates(tmin, tmax, lo, hi) {
        for s in spellings(c) {
            v.push(s.into_bytes());
        }
    }
    for j in JUNK {
        v.push(j.as_bytes().to_vec());
    }
    v.push(b"12\xff".to_vec());
    v.push(b"\xff".to_vec());
    v.push(b"\xc3".to_vec());
    v
}

pub fn exhaustive(shard: usize, nshards: usize, st: &mut Stats) {
    type F = fn(&mut Stats, Bound<i64>, Bound<i64>, bool, &[Vec<u8>], bool, usize);
    let fams: [(&str, i128, i128, F); 7] = [
        ("i8", i8::MIN as i128, i8::MAX as i128, ranged_i8),
        ("i16", i16::MIN as i128, i16::MAX as i128, ranged_i16),
        ("i32", i32::MIN as i128, i32::MAX as i128, ranged_i32),
        ("i64", i64::MIN as i128, i64::MAX as i128, ranged_i64),
        ("u8", 0, u8::MAX as i128, ranged_u8),
        ("u16", 0, u16::MAX as i128, ranged_u16),
        ("u32", 0, u32::MAX as i128, ranged_u32),
    ];
    let mut idx = 0usize;
    for (name, tmin, tmax, f) in fams {
        for wide in [false, true] {
            for rc in range_cases(tmin, tmax, wide) {
                idx += 1;
                if idx % nshards != shard {
                    continue;
                }
                let inputs = inputs_for(tmin, tmax, rc.lo, rc.hi);
                st.nontrivial(hash_str(&format!("{}{}{:?}{:?}", name, wide, rc.lo, rc.hi)));
                st.add("exhaustive.triples", inputs.len() as u64);
                f(st, rc.lo, rc.hi, wide, &inputs, idx % 7 == 0, 0);
                // and declared in two narrowing steps
                let compose = 1 + (idx / nshards) % 3;
                st.nontrivial(hash_str(&format!("{}{}{:?}{:?}{}", name, wide, rc.lo, rc.hi, compose)));
                st.add("exhaustive.triples", inputs.len() as u64);
                st.count("ranged.composed-ranges");
                f(st, rc.lo, rc.hi, wide, &inputs, idx % 5 == 0, compose);
            }
        }
    }
    // u64 family
    let pts: [u64; 7] = [0, 1, 2, u64::MAX - 1, u64::MAX, i64::MAX as u64, (i64::MAX as u64) + 1];
    for &a in &pts {
        for &b in &pts {
            for lk in 0..3 {
                for hk in 0..3 {
                    idx += 1;
                    if idx % nshards != shard {
                        continue;
                    }
                    let lo = match lk {
                        0 => Bound::Included(a),
                        1 => Bound::Excluded(a),
                        _ => Bound::Unbounded,
                    };
                    let hi = match hk {
                        0 => Bound::Included(b),
                        1 => Bound::Excluded(b),
                        _ => Bound::Unbounded,
                    };
                    let mut base: Vec<i128> = vec![0, a as i128, b as i128, u64::MAX as i128, i64::MAX as i128, 1i128 << 64, -1];
                    let mut vals = vec![];
                    for x in base.drain(..) {
                        for d in -2..=2 {
                            vals.push(x + d);
                        }
                    }
                    vals.sort();
                    vals.dedup();
                    let mut inputs: Vec<Vec<u8>> = vec![];
                    for c in vals {
                        for s in spellings(c) {
                            inputs.push(s.into_bytes());
                        }
                    }
                    for j in JUNK {
                        inputs.push(j.as_bytes().to_vec());
                    }
                    inputs.push(b"\xff1".to_vec());
                    st.nontrivial(hash_str(&format!("u64{:?}{:?}", lo, hi)));
                    st.add("exhaustive.triples", inputs.len() as u64);
                    ranged_u64(st, lo, hi, &inputs, 0);
                    let compose = 1 + (idx / nshards) % 7;
                    st.nontrivial(hash_str(&format!("u64{:?}{:?}{}", lo, hi, compose)));
                    st.add("exhaustive.triples", inputs.len() as u64);
                    st.count("ranged.composed-ranges");
                    ranged_u64(st, lo, hi, &inputs, compose);
                }
            }
        }
    }
    if shard == 0 {
        bool_literals(st);
    }
}

// ------------------------------------------------------------------ bool family

const TRUE_LITS: [&str; 6] = ["y", "yes", "t", "true", "on", "1"];
const FALSE_LITS: [&str; 6] = ["n", "no", "f", "false", "off", "0"];

fn case_variants(s: &str) -> Vec<String> {
    let n = s.len();
    (0..(1u32 << n))
        .map(|mask| {
            s.chars()
                .enumerate()
                .map(|(i, c)| if mask & (1 << i) != 0 { c.to_ascii_uppercase() } else { c })
                .collect()
        })
        .collect()
}

fn model_boolish(s: &str) -> Option<bool> {
    let l = s.to_ascii_lowercase();
    if !s.is_ascii() {
        return None;
    }
    if TRUE_LITS.contains(&l.as_str()) {
        Some(true)
    } else if FALSE_LITS.contains(&l.as_str()) {
        Some(false)
    } else {
        None
    }
}

fn check_bool_input(st: &mut Stats, s: &[u8]) {
    let (cmd, arg) = cmd_and_arg();
    let os = crate::core::os(s);
    let utf = std::str::from_utf8(s).ok();
    st.eval();
    // bool
    let r = catch(|| clap::builder::BoolValueParser::new().parse_ref(&cmd, Some(&arg), &os));
    match r {
        Err(p) => st.violation(format!("panic:vp-bool@{}", p.loc), format!("{} input {:?}", p.msg, show_bytes(s))),
        Ok(r) => {
            let m = match utf {
                Some("true") => Some(true),
                Some("false") => Some(false),
                _ => None,
            };
            match (r, m) {
                (Ok(v), Some(mv)) if v == mv => st.count("bool.accepted"),
                (Err(e), None) => {
                    st.count("bool.rejected");
                    check_err(st, "bool", s, &e, &[ErrorKind::InvalidValue, ErrorKind::ValueValidation, ErrorKind::InvalidUtf8], true);
                }
                (r, m) => st.violation("vp:bool:language", format!("input {:?}: got {:?}, model {:?}", show_bytes(s), r.map_err(|e| e.kind()), m)),
            }
        }
    }
    // boolish
    let r = catch(|| clap::builder::BoolishValueParser::new().parse_ref(&cmd, Some(&arg), &os));
    match r {
        Err(p) => st.violation(format!("panic:vp-boolish@{}", p.loc), format!("{} input {:?}", p.msg, show_bytes(s))),
        Ok(r) => {
            let m = utf.and_then(model_boolish);
            match (r, m) {
                (Ok(v), Some(mv)) if v == mv => st.count("boolish.accepted"),
                (Err(e), None) => {
                    st.count("boolish.rejected");
                    let kinds: &[ErrorKind] = if utf.is_none() { &[ErrorKind::InvalidUtf8] } else { &[ErrorKind::ValueValidation] };
                    check_err(st, "boolish", s, &e, kinds, true);
                }
                (r, m) => st.violation("vp:boolish:language", format!("input {:?}: got {:?}, model {:?}", show_bytes(s), r.map_err(|e| e.kind()), m)),
            }
        }
    }
    // falsey
    let r = catch(|| clap::builder::FalseyValueParser::new().parse_ref(&cmd, Some(&arg), &os));
    match r {
        Err(p) => st.violation(format!("panic:vp-falsey@{}", p.loc), format!("{} input {:?}", p.msg, show_bytes(s))),
        Ok(r) => {
            let m: Result<bool, ()> = match utf {
                None => Err(()),
                Some("") => Ok(false),
                Some(u) => Ok(model_boolish(u) != Some(false)),
            };
            match (r, m) {
                (Ok(v), Ok(mv)) if v == mv => st.count("falsey.accepted"),
                (Err(e), Err(())) => {
                    st.count("falsey.rejected");
                    check_err(st, "falsey", s, &e, &[ErrorKind::InvalidUtf8], true);
                }
                (r, m) => st.violation("vp:falsey:language", format!("input {:?}: got {:?}, model {:?}", show_bytes(s), r.map_err(|e| e.kind()), m)),
            }
        }
    }
    // non-empty string
    let r = catch(|| clap::builder::NonEmptyStringValueParser::new().parse_ref(&cmd, Some(&arg), &os));
    match r {
        Err(p) => st.violation(format!("panic:vp-nonempty@{}", p.loc), format!("{} input {:?}", p.msg, show_bytes(s))),
        Ok(r) => match (r, utf) {
            (Ok(v), Some(u)) if !u.is_empty() && v == u => {}
            (Err(_), Some("")) | (Err(_), None) => {}
            (r, _) => st.violation("vp:nonempty:language", format!("input {:?}: got {:?}", show_bytes(s), r.map_err(|e| e.kind()))),
        },
    }
}

fn bool_literals(st: &mut Stats) {
    let mut inputs: Vec<Vec<u8>> = vec![];
    for l in TRUE_LITS.iter().chain(FALSE_LITS.iter()) {
        for v in case_variants(l) {
            inputs.push(v.clone().into_bytes());
            inputs.push(format!(" {}", v).into_bytes());
            inputs.push(format!("{} ", v).into_bytes());
            inputs.push(format!("{}x", v).into_bytes());
        }
    }
    for j in ["", "2", "-1", "00", "01", "tru", "fals", "yess", "nope", "o", "of", "ofF", "İ", "ı", "ＹＥＳ", "yeſ", "ﬀ", "K", "TRUE\n", "nO\u{301}", "ｙ", "Ｙ"] {
        inputs.push(j.as_bytes().to_vec());
    }
    inputs.push(b"\xff".to_vec());
    inputs.push(b"tr\xffue".to_vec());
    // every single byte, and every literal with one position replaced by every byte (catches
    // case folding done with bit tricks: 0x10|0x20 == '0', 'Y'^0x20 == 'y', 0xD9&0x7f == 'Y', ...)
    for b in 0..=255u8 {
        inputs.push(vec![b]);
    }
    for l in TRUE_LITS.iter().chain(FALSE_LITS.iter()) {
        for pos in 0..l.len() {
            for b in 0..=255u8 {
                let mut v = l.as_bytes().to_vec();
                v[pos] = b;
                inputs.push(v);
            }
        }
    }
    inputs.sort();
    inputs.dedup();
    st.add("bool.exhaustive_inputs", inputs.len() as u64);
    for s in &inputs {
        check_bool_input(st, s);
    }
}

// ------------------------------------------------------------------ possible values

fn gen_name(rng: &mut Rng) -> String {
    // (the empty string and a blank are names like any other)
    const P: &[&str] = &["fast", "Fast", "FAST", "slow", "fa", "auto", "Auto", "always", "never", "é", "É", "a-b", "x", "X", "ß", "SS", "straße", "STRASSE", "i", "İ", "1", "true", "", " ", "-"];
    rng.pick(P).to_string()
}

fn possible_case(rng: &mut Rng, st: &mut Stats) {
    let n = rng.range(1, 5);
    let mut names: Vec<(String, Vec<String>, bool)> = vec![];
    let mut used = std::collections::BTreeSet::new();
    for _ in 0..n {
        let nm = gen_name(rng);
        if !used.insert(nm.clone()) {
            continue;
        }
        let mut als = vec![];
        for _ in 0..rng.below(3) {
            let a = gen_name(rng);
            if used.insert(a.clone()) {
                als.push(a);
            }
        }
        names.push((nm, als, rng.chance(1, 3)));
    }
    let ignore_case = rng.coin();
    let pvs: Vec<clap::builder::PossibleValue> = names
        .iter()
        .map(|(n, a, h)| {
            let mut p = clap::builder::PossibleValue::new(n.clone()).hide(*h);
            for x in a {
                p = p.alias(x.clone());
            }
            p
        })
        .collect();
    let arg = Arg::new("num").long("num-markerq7").action(ArgAction::Set).value_parser(pvs).ignore_case(ignore_case);
    let cmd = Command::new("p").arg(arg);
    let mut cands: Vec<Vec<u8>> = vec![];
    for (n, a, _) in &names {
        for x in std::iter::once(n).chain(a.iter()) {
            cands.push(x.clone().into_bytes());
            cands.push(x.to_ascii_uppercase().into_bytes());
            cands.push(x.to_ascii_lowercase().into_bytes());
            cands.push(x.to_uppercase().into_bytes());
            cands.push(x.to_lowercase().into_bytes());
            cands.push(format!("{}x", x).into_bytes());
            cands.push(format!(" {}", x).into_bytes());
            if x.len() > 1 {
                cands.push(x.as_bytes()[..x.len() - 1].to_vec());
            }
        }
    }
    for _ in 0..4 {
        cands.push(gen_name(rng).into_bytes());
    }
    cands.push(vec![]);
    cands.push(b"\xff".to_vec());
    st.nontrivial(hash_str(&format!("{:?}{}", names, ignore_case)));
    st.sample(|| format!("possible values {:?} ignore_case={} x {} candidates", names, ignore_case, cands.len()));
    for c in cands {
        st.eval();
        let mut a = b"--num-markerq7=".to_vec();
        a.extend_from_slice(&c);
        let r = catch(|| cmd.clone().try_get_matches_from(vec![OsString::from("p"), crate::core::os(&a)]));
        let r = match r {
            Ok(r) => r,
            Err(p) => {
                st.violation(format!("panic:vp-possible@{}", p.loc), format!("{} input {:?} names {:?}", p.msg, show_bytes(&c), names));
                continue;
            }
        };
        let utf = std::str::from_utf8(&c).ok();
        // model: exact match always accepted; ASCII-case-folded match accepted iff ignore_case;
        // non-ASCII case folding: only "exact match is accepted" is asserted
        let all: Vec<&String> = names.iter().flat_map(|(n, a, _)| std::iter::once(n).chain(a.iter())).collect();
        let exact = utf.map(|u| all.iter().any(|x| x.as_str() == u)).unwrap_or(false);
        let ascii_fold = utf.map(|u| all.iter().any(|x| x.eq_ignore_ascii_case(u))).unwrap_or(false);
        let unicode_fold = utf.map(|u| all.iter().any(|x| x.to_lowercase() == u.to_lowercase() || x.to_uppercase() == u.to_uppercase())).unwrap_or(false);
        match r {
            Ok(m) => {
                st.count("possible.accepted");
                let ok = exact || (ignore_case && (ascii_fold || unicode_fold));
                if !ok {
                    st.violation("vp:possible:accepted-undeclared", format!("input {:?} accepted; declared {:?} ignore_case={}", show_bytes(&c), names, ignore_case));
                }
                let v = m.get_one::<String>("num").cloned();
                if v.as_deref() != utf {
                    st.violation("vp:possible:value-differs", format!("input {:?} stored as {:?}", show_bytes(&c), v));
                }
            }
            Err(e) => {
                st.count("possible.rejected");
                let must_accept = exact || (ignore_case && ascii_fold);
                if must_accept {
                    st.violation("vp:possible:rejected-declared", format!("input {:?} rejected ({:?}); declared {:?} ignore_case={}", show_bytes(&c), e.kind(), names, ignore_case));
                }
                let kinds: &[ErrorKind] = if utf.is_none() { &[ErrorKind::InvalidUtf8, ErrorKind::InvalidValue] } else { &[ErrorKind::InvalidValue] };
                check_err(st, "possible", &c, &e, kinds, true);
            }
        }
    }
}

// ------------------------------------------------------------------ typed access history

#[derive(Clone, Copy, Debug, PartialEq)]
enum Ty {
    Str,
    I64,
    Bool,
    U8,
    Path,
    Os,
    I32,
}
const TYS: [Ty; 7] = [Ty::Str, Ty::I64, Ty::Bool, Ty::U8, Ty::Path, Ty::Os, Ty::I32];

type Obs = Result<Option<Vec<String>>, String>;

fn err_name(e: &clap::parser::MatchesError) -> String {
    match e {
        clap::parser::MatchesError::Downcast { .. } => "Downcast".into(),
        clap::parser::MatchesError::UnknownArgument { .. } => "UnknownArgument".into(),
        _ => "Other".into(),
    }
}

fn typed_get<T: std::any::Any + Clone + Send + Sync + 'static>(m: &clap::ArgMatches, id: &str, many: bool, show: fn(&T) -> String) -> Obs {
    if many {
        match m.try_get_many::<T>(id) {
            Ok(Some(v)) => Ok(Some(v.map(show).collect())),
            Ok(None) => Ok(None),
            Err(e) => Err(err_name(&e)),
        }
    } else {
        match m.try_get_one::<T>(id) {
            Ok(Some(v)) => Ok(Some(vec![show(v)])),
            Ok(None) => Ok(None),
            Err(e) => Err(err_name(&e)),
        }
    }
}

fn typed_remove<T: std::any::Any + Clone + Send + Sync + 'static>(m: &mut clap::ArgMatches, id: &str, mode: u8, show: fn(&T) -> String) -> Obs {
    match mode {
        0 => match m.try_remove_one::<T>(id) {
            Ok(Some(v)) => Ok(Some(vec![show(&v)])),
            Ok(None) => Ok(None),
            Err(e) => Err(err_name(&e)),
        },
        1 => match m.try_remove_many::<T>(id) {
            Ok(Some(v)) => Ok(Some(v.map(|x| show(&x)).collect())),
            Ok(None) => Ok(None),
            Err(e) => Err(err_name(&e)),
        },
        _ => match m.try_remove_occurrences::<T>(id) {
            Ok(Some(v)) => Ok(Some(v.map(|o| o.map(|x| show(&x)).collect::<Vec<_>>().join("|")).collect())),
            Ok(None) => Ok(None),
            Err(e) => Err(err_name(&e)),
        },
    }
}

fn do_get(m: &clap::ArgMatches, id: &str, ty: Ty, many: bool) -> Obs {
    match ty {
        Ty::Str => typed_get::<String>(m, id, many, |x| x.clone()),
        Ty::I64 => typed_get::<i64>(m, id, many, |x| x.to_string()),
        Ty::Bool => typed_get::<bool>(m, id, many, |x| x.to_string()),
        Ty::U8 => typed_get::<u8>(m, id, many, |x| x.to_string()),
        Ty::Path => typed_get::<std::path::PathBuf>(m, id, many, |x| x.display().to_string()),
        Ty::Os => typed_get::<OsString>(m, id, many, |x| x.to_string_lossy().into_owned()),
        Ty::I32 => typed_get::<i32>(m, id, many, |x| x.to_string()),
    }
}

fn do_remove(m: &mut clap::ArgMatches, id: &str, ty: Ty, mode: u8) -> Obs {
    match ty {
        Ty::Str => typed_remove::<String>(m, id, mode, |x| x.clone()),
        Ty::I64 => typed_remove::<i64>(m, id, mode, |x| x.to_string()),
        Ty::Bool => typed_remove::<bool>(m, id, mode, |x| x.to_string()),
        Ty::U8 => typed_remove::<u8>(m, id, mode, |x| x.to_string()),
        Ty::Path => typed_remove::<std::path::PathBuf>(m, id, mode, |x| x.display().to_string()),
        Ty::Os => typed_remove::<OsString>(m, id, mode, |x| x.to_string_lossy().into_owned()),
        Ty::I32 => typed_remove::<i32>(m, id, mode, |x| x.to_string()),
    }
}

#[derive(Clone, Debug, PartialEq)]
struct Entry {
    ty: Ty,
    /// occurrences of values (already in display form)
    occ: Vec<Vec<String>>,
}

fn snapshot(m: &clap::ArgMatches, ids: &[(&str, Ty)]) -> Vec<String> {
    let mut out = vec![];
    for (id, ty) in ids {
        let raw: Option<Vec<String>> = m.try_get_raw(id).ok().flatten().map(|r| r.map(|x| x.to_string_lossy().into_owned()).collect());
        let occ: Option<Vec<Vec<String>>> = m
            .try_get_raw_occurrences(id)
            .ok()
            .flatten()
            .map(|o| o.map(|v| v.map(|x| x.to_string_lossy().into_owned()).collect()).collect());
        let typed = do_get(m, id, *ty, true);
        out.push(format!(
            "{}: contains={:?} source={:?} raw={:?} occ={:?} typed={:?} idx={:?}",
            id,
            m.try_contains_id(id).ok(),
            m.value_source(id),
            raw,
            occ,
            typed,
            m.indices_of(id).map(|i| i.collect::<Vec<_>>())
        ));
    }
    out
}

fn access_case(rng: &mut Rng, st: &mut Stats) {
    let cmd = Command::new("p")
        .arg(Arg::new("s").long("s").action(ArgAction::Set))
        .arg(Arg::new("n").long("n").action(ArgAction::Append).num_args(1..=2).value_parser(clap::value_parser!(i64)))
        .arg(Arg::new("f").long("f").action(ArgAction::SetTrue))
        .arg(Arg::new("c").short('c').action(ArgAction::Count))
        .arg(Arg::new("p").long("p").action(ArgAction::Set).value_parser(clap::value_parser!(std::path::PathBuf)))
        .arg(Arg::new("o").long("o").action(ArgAction::Append).value_parser(clap::value_parser!(OsString)))
        .arg(Arg::new("d").long("d").action(ArgAction::Set).default_value("dflt"))
        .arg(Arg::new("u").long("u").action(ArgAction::Set))
        // may be present without holding a value
        .arg(Arg::new("z").long("z").action(ArgAction::Append).num_args(0..=1).value_parser(clap::value_parser!(i64)));
    let ids: [(&str, Ty); 9] =
        [("s", Ty::Str), ("n", Ty::I64), ("f", Ty::Bool), ("c", Ty::U8), ("p", Ty::Path), ("o", Ty::Os), ("d", Ty::Str), ("u", Ty::Str), ("z", Ty::I64)];
    // argv: random subset
    let mut argv: Vec<OsString> = vec!["p".into()];
    let mut model: std::collections::BTreeMap<&str, Entry> = Default::default();
    if rng.chance(3, 4) {
        argv.extend(["--s".into(), "sv".into()]);
        model.insert("s", Entry { ty: Ty::Str, occ: vec![vec!["sv".into()]] });
    }
    let nn = rng.below(4);
    let mut nocc = vec![];
    for k in 0..nn {
        argv.push("--n".into());
        let a = (k as i64) * 7 + 3;
        argv.push(a.to_string().into());
        let mut o = vec![a.to_string()];
        if rng.coin() {
            argv.push((a + 100).to_string().into());
            o.push((a + 100).to_string());
        }
        nocc.push(o);
    }
    if nn > 0 {
        model.insert("n", Entry { ty: Ty::I64, occ: nocc });
    }
    let f = rng.coin();
    if f {
        argv.push("--f".into());
    }
    model.insert("f", Entry { ty: Ty::Bool, occ: vec![vec![f.to_string()]] });
    let c = rng.below(4);
    for _ in 0..c {
        argv.push("-c".into());
    }
    model.insert("c", Entry { ty: Ty::U8, occ: vec![vec![c.to_string()]] });
    if rng.coin() {
        argv.extend(["--p".into(), "/tmp/x".into()]);
        model.insert("p", Entry { ty: Ty::Path, occ: vec![vec!["/tmp/x".into()]] });
    }
    let no = rng.below(3);
    let mut oocc = vec![];
    for k in 0..no {
        argv.push("--o".into());
        argv.push(format!("ov{}", k).into());
        oocc.push(vec![format!("ov{}", k)]);
    }
    if no > 0 {
        model.insert("o", Entry { ty: Ty::Os, occ: oocc });
    }
    let nz = rng.below(3);
    let mut zocc = vec![];
    for k in 0..nz {
        if rng.coin() {
            argv.push("--z".into());
            zocc.push(vec![]);
        } else {
            argv.push(format!("--z={}", 40 + k).into());
            zocc.push(vec![(40 + k).to_string()]);
        }
    }
    if nz > 0 {
        if zocc.iter().all(|o| o.is_empty()) {
            st.count("access.present-without-values");
        }
        model.insert("z", Entry { ty: Ty::I64, occ: zocc });
    }
    if rng.coin() {
        argv.extend(["--d".into(), "dv".into()]);
        model.insert("d", Entry { ty: Ty::Str, occ: vec![vec!["dv".into()]] });
    } else {
        model.insert("d", Entry { ty: Ty::Str, occ: vec![vec!["dflt".into()]] });
    }
    let mut m = match catch(|| cmd.clone().try_get_matches_from(argv.clone())) {
        Ok(Ok(m)) => m,
        Ok(Err(e)) => {
            st.violation("access:setup-parse-failed", format!("argv {} -> {:?}", show_argv(&argv), e.kind()));
            return;
        }
        Err(p) => {
            st.violation(format!("panic:access-setup@{}", p.loc), p.msg);
            return;
        }
    };
    st.nontrivial(hash_str(&show_argv(&argv)));
    let nops = rng.range(1, 12);
    let mut trace = vec![];
    for _ in 0..nops {
        st.eval();
        let unknown = rng.chance(1, 8);
        let id: &str = if unknown { *rng.pick(&["zz", "S", "--s", "nope", "s "]) } else { rng.pick(&ids).0 };
        let ty = if rng.chance(1, 3) || unknown { *rng.pick(&TYS) } else { ids.iter().find(|(i, _)| *i == id).map(|x| x.1).unwrap() };
        let before = snapshot(&m, &ids);
        let op = rng.below(6);
        let (name, got): (String, Obs) = match op {
            0 => (format!("try_get_one::<{:?}>({:?})", ty, id), catch(|| do_get(&m, id, ty, false)).unwrap_or_else(|p| Err(format!("PANIC {}", p.loc)))),
            1 => (format!("try_get_many::<{:?}>({:?})", ty, id), catch(|| do_get(&m, id, ty, true)).unwrap_or_else(|p| Err(format!("PANIC {}", p.loc)))),
            2 => {
                let r = catch(|| m.try_contains_id(id));
                (
                    format!("try_contains_id({:?})", id),
                    match r {
                        Ok(Ok(b)) => Ok(Some(vec![b.to_string()])),
                        Ok(Err(e)) => Err(err_name(&e)),
                        Err(p) => Err(format!("PANIC {}", p.loc)),
                    },
                )
            }
            k => {
                let mode = (k - 3) as u8;
                (
                    format!("try_remove[{}]::<{:?}>({:?})", mode, ty, id),
                    catch(|| do_remove(&mut m, id, ty, mode)).unwrap_or_else(|p| Err(format!("PANIC {}", p.loc))),
                )
            }
        };
        trace.push(name.clone());
        // model
        let known = ids.iter().any(|(i, _)| *i == id);
        let exp: Obs = if !known {
            Err("UnknownArgument".into())
        } else {
            match model.get(id) {
                None => {
                    if op == 2 {
                        Ok(Some(vec!["false".into()]))
                    } else {
                        Ok(None)
                    }
                }
                Some(e) => {
                    if op == 2 {
                        Ok(Some(vec!["true".into()]))
                    } else if e.ty != ty {
                        Err("Downcast".into())
                    } else {
                        let flat: Vec<String> = e.occ.iter().flatten().cloned().collect();
                        match op {
                            0 | 3 => Ok(flat.first().cloned().map(|x| vec![x])),
                            1 | 4 => Ok(Some(flat)),
                            _ => Ok(Some(e.occ.iter().map(|o| o.join("|")).collect())),
                        }
                    }
                }
            }
        };
        if got != exp {
            st.violation(
                format!("access:result:{}", name.split("::").next().unwrap_or("op").split('(').next().unwrap_or("op")),
                format!("{} returned {:?}, model {:?} | argv {} | history {:?}", name, got, exp, show_argv(&argv), trace),
            );
            return;
        }
        match &got {
            Err(k) if k == "Downcast" => st.count("access.downcast"),
            Err(k) if k == "UnknownArgument" => st.count("access.unknown"),
            _ => st.count("access.ok"),
        }
        let removed = op >= 3 && got.is_ok() && known && model.contains_key(id);
        if removed {
            model.remove(id);
            st.count("access.removed");
        }
        let after = snapshot(&m, &ids);
        if !removed {
            if after != before {
                st.violation(
                    "access:failed-or-read-op-disturbed-state",
                    format!("{} changed stored state | before {:?} | after {:?} | argv {}", name, before, after, show_argv(&argv)),
                );
                return;
            }
        } else {
            // exactly the removed id changed
            for (k, (b, a)) in before.iter().zip(after.iter()).enumerate() {
                let this = ids[k].0 == id;
                if !this && a != b {
                    st.violation("access:remove-disturbed-other", format!("{} changed {:?} -> {:?}", name, b, a));
                    return;
                }
                if this && !a.contains("contains=Some(false)") {
                    st.violation("access:remove-left-arg", format!("{} left {:?}", name, a));
                    return;
                }
            }
        }
    }
}

fn random_ranged(rng: &mut Rng, st: &mut Stats) {
    // random ranges and random digit strings for the i64 family via i32 / i64
    let a = (rng.next() as i64) >> rng.below(60);
    let b = (rng.next() as i64) >> rng.below(60);
    let (lo, hi) = if a <= b { (a, b) } else { (b, a) };
    let mut inputs: Vec<Vec<u8>> = vec![];
    for _ in 0..20 {
        let n = rng.range(1, 22);
        let mut s = String::new();
        match rng.below(4) {
            0 => s.push('-'),
            1 => s.push('+'),
            _ => {}
        }
        for _ in 0..n {
            s.push((b'0' + rng.below(10) as u8) as char);
        }
        if rng.chance(1, 10) {
            s.push(*rng.pick(&['a', ' ', '.', '_']));
        }
        inputs.push(s.into_bytes());
    }
    for d in [-1i128, 0, 1] {
        inputs.push((lo as i128 + d).to_string().into_bytes());
        inputs.push((hi as i128 + d).to_string().into_bytes());
    }
    st.nontrivial(mix(lo as u64, hi as u64));
    let compose = rng.below(4);
    ranged_i64(st, Bound::Included(lo), Bound::Included(hi), true, &inputs, true, compose);
    ranged_i32(st, Bound::Included(lo), Bound::Excluded(hi), true, &inputs, false, (compose + 1) % 4);
    let ulo = lo.unsigned_abs();
    let uhi = hi.unsigned_abs().max(ulo);
    for v in [0u64, ulo / 2, ulo.saturating_sub(1), ulo, uhi, uhi.saturating_add(1)] {
        inputs.push(v.to_string().into_bytes());
    }
    ranged_u64(st, Bound::Included(ulo.min(uhi)), Bound::Included(uhi), &inputs, rng.below(8));
}

pub fn case(seed: u64, st: &mut Stats) {
    let mut rng = Rng::new(seed);
    match rng.below(10) {
        0..=3 => access_case(&mut rng, st),
        4..=6 => possible_case(&mut rng, st),
        7 => {
            // random strings against the bool family
            let n = rng.range(0, 6);
            let mut s = String::new();
            for _ in 0..n {
                s.push(*rng.pick(&['y', 'Y', 'e', 'E', 's', 'n', 'o', 'O', 'f', 'F', 't', 'r', 'u', '0', '1', ' ', 'İ', 'ſ', 'K']));
            }
            st.nontrivial(hash_str(&s));
            check_bool_input(st, s.as_bytes());
        }
        _ => random_ranged(&mut rng, st),
    }
}

#[allow(dead_code)]
fn _unused(_: &OsStr) {}
