//! C17 — descriptive text can never change the structure of a generated script.
//!
//! First-level structure: how the shell reads the script file. Each script is reduced to a
//! skeleton in which the *contents* of string literals and comments are abstracted away while
//! everything else (including expansion events inside double quotes) is kept; the skeleton of the
//! adversarial variant must equal that of the benign variant.

use crate::core::*;
use crate::spec::*;

#[derive(Clone, Copy, PartialEq, Debug)]
pub enum Sh {
    Bash,
    Zsh,
    Fish,
    Pwsh,
    Elvish,
    Nu,
}

fn is_pwsh_squote(c: char) -> bool {
    matches!(c, '\'' | '\u{2018}' | '\u{2019}' | '\u{201A}' | '\u{201B}')
}
fn is_pwsh_dquote(c: char) -> bool {
    matches!(c, '"' | '\u{201C}' | '\u{201D}' | '\u{201E}')
}

pub fn skeleton(sh: Sh, src: &str) -> String {
    let cs: Vec<char> = src.chars().collect();
    let mut out = String::new();
    let mut i = 0;
    let n = cs.len();
    let word_start = |i: usize| i == 0 || cs[i - 1].is_whitespace() || matches!(cs[i - 1], ';' | '(' | '{' | '|' | '&');
    while i < n {
        let c = cs[i];
        // comments
        if c == '#' && word_start(i) {
            out.push_str("#~");
            while i < n && cs[i] != '\n' {
                i += 1;
            }
            continue;
        }
        // single-quoted
        let squote = match sh {
            Sh::Pwsh => is_pwsh_squote(c),
            _ => c == '\'',
        };
        if squote {
            i += 1;
            loop {
                if i >= n {
                    out.push_str("'UNTERMINATED");
                    break;
                }
                let d = cs[i];
                match sh {
                    Sh::Bash | Sh::Zsh | Sh::Nu => {
                        if d == '\'' {
                            i += 1;
                            break;
                        }
                        i += 1;
                    }
                    Sh::Fish => {
                        if d == '\\' && i + 1 < n && (cs[i + 1] == '\'' || cs[i + 1] == '\\') {
                            i += 2;
                        } else if d == '\'' {
                            i += 1;
                            break;
                        } else {
                            i += 1;
                        }
                    }
                    Sh::Elvish => {
                        if d == '\'' {
                            if i + 1 < n && cs[i + 1] == '\'' {
                                i += 2;
                            } else {
                                i += 1;
                                break;
                            }
                        } else {
                            i += 1;
                        }
                    }
                    Sh::Pwsh => {
                        if is_pwsh_squote(d) {
                            if i + 1 < n && is_pwsh_squote(cs[i + 1]) {
                                i += 2;
                            } else {
                                i += 1;
                                break;
                            }
                        } else {
                            i += 1;
                        }
                    }
                }
            }
            out.push_str("'S'");
            continue;
        }
        // ANSI-C quoting
        if matches!(sh, Sh::Bash | Sh::Zsh) && c == '$' && i + 1 < n && cs[i + 1] == '\'' {
            i += 2;
            while i < n {
                if cs[i] == '\\' {
                    i += 2;
                } else if cs[i] == '\'' {
                    i += 1;
                    break;
                } else {
                    i += 1;
                }
            }
            out.push_str("$'A'");
            continue;
        }
        // double-quoted
        let dquote = match sh {
            Sh::Pwsh => is_pwsh_dquote(c),
            _ => c == '"',
        };
        if dquote {
            i += 1;
            out.push_str("\"D");
            loop {
                if i >= n {
                    out.push_str("UNTERMINATED");
                    break;
                }
                let d = cs[i];
                match sh {
                    Sh::Bash | Sh::Zsh | Sh::Elvish | Sh::Nu => {
                        if d == '\\' {
                            i += 2;
                        } else if d == '"' {
                            i += 1;
                            break;
                        } else {
                            if matches!(sh, Sh::Bash | Sh::Zsh) && (d == '$' || d == '`') {
                                out.push(d);
                            }
                            i += 1;
                        }
                    }
                    Sh::Fish => {
                        if d == '\\' && i + 1 < n && matches!(cs[i + 1], '"' | '$' | '\\' | '\n') {
                            i += 2;
                        } else if d == '"' {
                            i += 1;
                            break;
                        } else {
                            if d == '$' {
                                out.push('$');
                            }
                            i += 1;
                        }
                    }
                    Sh::Pwsh => {
                        if d == '`' {
                            i += 2;
                        } else if is_pwsh_dquote(d) {
                            if i + 1 < n && is_pwsh_dquote(cs[i + 1]) {
                                i += 2;
                            } else {
                                i += 1;
                                break;
                            }
                        } else {
                            if d == '$' {
                                out.push('$');
                            }
                            i += 1;
                        }
                    }
                }
            }
            out.push('"');
            continue;
        }
        // escapes outside quotes
        match sh {
            Sh::Bash | Sh::Zsh | Sh::Fish => {
                if c == '\\' && i + 1 < n {
                    if cs[i + 1] == '\n' {
                        out.push_str("\\\n");
                    } else {
                        out.push_str("\\_");
                    }
                    i += 2;
                    continue;
                }
            }
            Sh::Pwsh => {
                if c == '`' && i + 1 < n {
                    out.push_str("`_");
                    i += 2;
                    continue;
                }
            }
            _ => {}
        }
        out.push(c);
        i += 1;
    }
    // A word built from adjacent quoted pieces and escaped characters (the `'\''` idiom) is one
    // literal word: collapse such runs so that the number of pieces (data dependent) is abstracted.
    if matches!(sh, Sh::Bash | Sh::Zsh | Sh::Fish) {
        loop {
            let before = out.len();
            for (a, b) in [("'S''S'", "'S'"), ("'S'\\_", "'S'"), ("\\_'S'", "'S'"), ("'S'$'A'", "'S'"), ("$'A''S'", "'S'")] {
                while out.contains(a) {
                    out = out.replace(a, b);
                }
            }
            if out.len() == before {
                break;
            }
        }
    }
    out
}

pub fn case(seed: u64, st: &mut Stats) {
    let mut rng = Rng::new(seed);
    let spec = crate::c16::gen_tree(&mut rng, false);
    if gate(&spec).is_err() {
        st.count("gate.rejected");
        return;
    }
    st.count("gate.accepted");
    let sseed = rng.next();
    let mut benign = spec.clone();
    crate::c19::fill_pub(&mut benign, sseed, false);
    let mut adv = spec.clone();
    crate::c19::fill_pub(&mut adv, sseed, true);
    let (cb, ca) = match (catch(|| build(&benign)), catch(|| build(&adv))) {
        (Ok(a), Ok(b)) => (a, b),
        _ => return,
    };
    st.nontrivial(hash_str(&format!("{:?}", adv)));
    st.sample(|| format!("adversarial about {:?}; first arg help {:?}", adv.about, adv.args.first().and_then(|a| a.help.clone())));
    for (g, sh) in [("bash", Sh::Bash), ("zsh", Sh::Zsh), ("fish", Sh::Fish), ("powershell", Sh::Pwsh), ("elvish", Sh::Elvish), ("nushell", Sh::Nu)] {
        st.eval();
        let sb = match crate::c16::gen_script(g, &cb) {
            Ok(s) => s,
            Err(_) => {
                st.count("generator.panicked-on-benign"); // C16's subject
                continue;
            }
        };
        let sa = match crate::c16::gen_script(g, &ca) {
            Ok(s) => s,
            Err(p) => {
                st.violation(format!("panic:gen-{}@{}", g, p.loc), format!("{} (adversarial text only) | spec={}", p.msg, brief(&adv)));
                continue;
            }
        };
        st.count(&format!("compared.{}", g));
        let kb = skeleton(sh, &sb);
        let ka = skeleton(sh, &sa);
        if ka != kb {
            let pos = ka.chars().zip(kb.chars()).position(|(a, b)| a != b).unwrap_or(ka.chars().count().min(kb.chars().count()));
            let around = |s: &str| s.chars().skip(pos.saturating_sub(60)).take(140).collect::<String>();
            // locate the script line of the adversarial variant
            let line_no = ka.chars().take(pos).filter(|c| *c == '\n').count();
            let line = sa.lines().nth(line_no).unwrap_or("");
            // slot class from the offending line
            let class = if g == "fish" && line.contains(" -a \"") {
                "fish:possible-value-help-in-double-quotes"
            } else if g == "powershell" && line.chars().any(|c| matches!(c, '\u{2018}' | '\u{201A}' | '\u{201B}')) {
                "powershell:curly-single-quote"
            } else {
                g
            };
            st.violation(
                format!("c17:structure-differs:{}", class),
                format!("skeleton differs at char {}: adversarial …{:?}… vs benign …{:?}… | script line {}: {:?} | spec={}", pos, around(&ka), around(&kb), line_no + 1, line, brief(&adv)),
            );
            continue;
        }
        if g == "bash" {
            if let Err(e) = crate::c16::bash_syntax_ok(&sa) {
                st.violation("c17:bash-syntax", format!("bash -n on the adversarial script: {} | spec={}", e, brief(&adv)));
            } else {
                st.count("bash.syntax-ok");
            }
        }
    }
}
