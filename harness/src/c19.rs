//! C19 — man pages always render, cover every visible item, and keep user text as text.

use crate::core::*;
use crate::gen::*;
use crate::spec::*;
use std::collections::BTreeMap;

const LINE_STARTS: &[&str] = &[".", "'", "\\", "-", "\"", "x", ".SH", "'br", "\\fB", ".\\\"", "..", "w"];

fn line(rng: &mut Rng, hostile: bool) -> String {
    if !hostile {
        return benign_text(rng);
    }
    let mut s = rng.pick(LINE_STARTS).to_string();
    if rng.chance(1, 10) {
        // far end of "whatever characters": a long run that puts the next special character right
        // at a length a generator might clip, pad or wrap at
        let edge = *rng.pick(&[16usize, 32, 40, 64, 72, 80, 100, 120, 128, 200, 256, 512]);
        let upto = (edge + 2).saturating_sub(rng.below(5)).saturating_sub(s.chars().count());
        for k in 0..upto {
            s.push(if k % 9 == 8 && rng.chance(1, 3) { *rng.pick(&['\'', '"', '\\', ' ']) } else { 'a' });
        }
        if rng.coin() {
            s.push(*rng.pick(&['\'', '"', '\\', '$', '`', ']', ':']));
        }
    }
    for _ in 0..rng.range(0, 5) {
        let f = *rng.pick(HOSTILE_FRAGS);
        if f.contains('\n') || f.contains('\r') {
            continue;
        }
        s.push_str(f);
        if rng.coin() {
            s.push(' ');
        }
    }
    s
}

/// same line structure for both variants: the draw order and counts depend only on `structure`
fn text(structure: &mut Rng, content: &mut Rng, hostile: bool, multiline: bool) -> String {
    let n = if multiline { structure.range(1, 3) } else { 1 };
    let mut lines = vec![];
    for k in 0..n {
        if k > 0 && structure.chance(1, 6) {
            lines.push(String::new()); // blank line -> .PP in both variants
        } else if k > 0 && structure.chance(1, 8) {
            // a blank line that is not empty in the adversarial variant (mangen starts a paragraph
            // at either: same emptiness)
            lines.push(if hostile { (*content.pick(&[" ", "   ", "\t", " \t "])).to_string() } else { String::new() });
        }
        lines.push(line(content, hostile));
    }
    // the adversarial variant mixes CRLF and bare LF line ends (same number of lines either way)
    let mut out = String::new();
    for (k, l) in lines.iter().enumerate() {
        if k > 0 {
            out.push_str(if hostile && content.chance(1, 4) { "\r\n" } else { "\n" });
        }
        out.push_str(l);
    }
    out
}

fn fill(c: &mut CmdSpec, st: &mut Rng, ct: &mut Rng, hostile: bool, names_too: bool) {
    macro_rules! slot {
        ($f:expr, $ml:expr) => {
            if $f.is_some() {
                *$f = Some(text(st, ct, hostile, $ml));
            }
        };
    }
    slot!(&mut c.about, true);
    slot!(&mut c.long_about, true);
    slot!(&mut c.after_help, true);
    slot!(&mut c.after_long_help, true);
    slot!(&mut c.before_help, true);
    // (every slot may span several lines; the single-line ones do so less often)
    if c.author.is_some() {
        let ml = st.chance(1, 3);
        c.author = Some(text(st, ct, hostile, ml));
    }
    // (versions may span several lines too)
    if c.version.is_some() {
        let ml = st.chance(1, 4);
        c.version = Some(text(st, ct, hostile, ml));
    }
    if c.long_version.is_some() {
        let ml = st.chance(1, 2);
        c.long_version = Some(text(st, ct, hostile, ml));
    }
    if names_too {
        if st.chance(1, 3) {
            c.display_name = Some(text(st, ct, hostile, false));
        }
        if !c.subs.is_empty() && st.chance(1, 3) {
            c.subcommand_help_heading = Some(text(st, ct, hostile, false));
        }
        if !c.subs.is_empty() && st.chance(1, 4) {
            c.subcommand_value_name = Some(text(st, ct, hostile, false));
        }
    }
    for a in c.args.iter_mut() {
        slot!(&mut a.help, true);
        slot!(&mut a.long_help, true);
        if a.heading.is_some() && names_too {
            // headings must stay distinct per original heading: keep a stable prefix
            let h = a.heading.clone().unwrap();
            let mut r2 = Rng::new(hash_str(&h));
            let mut c2 = Rng::new(hash_str(&h) ^ if hostile { 0x5555 } else { 0 });
            a.heading = Some(format!("H{} {}", h.len(), text(&mut r2, &mut c2, hostile, false)));
        }
        if let Some(Vp::Possible(pvs)) = a.vp.as_mut() {
            for p in pvs.iter_mut() {
                if p.help.is_some() {
                    let ml = st.chance(1, 2);
                    p.help = Some(text(st, ct, hostile, ml));
                }
            }
        }
        if names_too && a.takes_values() && !a.defaults.is_empty() && st.chance(1, 2) {
            a.defaults = vec![text(st, ct, hostile, false)];
            a.vp = None;
        }
    }
    for s in c.subs.iter_mut() {
        fill(s, st, ct, hostile, names_too);
    }
}

/// fill every descriptive-text slot (not names) with benign or adversarial text of identical line structure
pub fn fill_pub(c: &mut CmdSpec, seed: u64, hostile: bool) {
    fill(c, &mut Rng::new(seed), &mut Rng::new(seed ^ if hostile { 2 } else { 1 }), hostile, false);
}

/// (request, argc) multiset of control lines
fn control_lines(page: &str) -> BTreeMap<(String, usize), usize> {
    let mut m = BTreeMap::new();
    for l in page.lines() {
        if l.starts_with('.') || l.starts_with('\'') {
            let body = &l[1..];
            let name: String = body.chars().take_while(|c| !c.is_whitespace()).collect();
            let rest = &body[name.len()..];
            // count arguments: whitespace separated, double quotes group
            let mut argc = 0;
            let mut in_q = false;
            let mut in_tok = false;
            for ch in rest.chars() {
                if ch == '"' {
                    in_q = !in_q;
                    if !in_tok {
                        in_tok = true;
                        argc += 1;
                    }
                } else if ch == ' ' && !in_q {
                    // only spaces separate macro arguments (tabs do not)
                    in_tok = false;
                } else if !in_tok {
                    in_tok = true;
                    argc += 1;
                }
            }
            let first = l.chars().next().unwrap();
            *m.entry((format!("{}{}", first, name), argc)).or_insert(0) += 1;
        }
    }
    m
}

fn render(cmd: &clap::Command) -> Result<String, Panic> {
    catch(|| {
        let mut buf = vec![];
        clap_mangen::Man::new(cmd.clone()).render(&mut buf).unwrap();
        String::from_utf8_lossy(&buf).into_owned()
    })
}

fn pages(spec: &CmdSpec) -> Result<Vec<(String, String)>, Panic> {
    let mut cmd = catch(|| {
        let mut c = build(spec);
        c.build();
        c
    })?;
    let mut out = vec![];
    fn walk(c: &mut clap::Command, path: String, out: &mut Vec<(String, String)>) -> Result<(), Panic> {
        out.push((path.clone(), render(c)?));
        let names: Vec<String> = c.get_subcommands().map(|s| s.get_name().to_string()).collect();
        for n in names {
            if n == "help" {
                continue;
            }
            if let Some(s) = c.find_subcommand_mut(&n) {
                walk(s, format!("{}/{}", path, n), out)?;
            }
        }
        Ok(())
    }
    walk(&mut cmd, "prog".into(), &mut out)?;
    Ok(out)
}

fn find<'a>(c: &'a CmdSpec, path: &str) -> Option<&'a CmdSpec> {
    let mut cur = c;
    for p in path.split('/').skip(1) {
        cur = cur.sub(p)?;
    }
    Some(cur)
}

pub fn case(seed: u64, st: &mut Stats) {
    let mut rng = Rng::new(seed);
    let o = WildOpts { max_args: 5, max_groups: 1, max_subs: 2, depth: 2, texts: true, hostile_text: false, env: rng.coin(), ..Default::default() };
    let mut spec = wild(&mut rng, &o);
    spec.settings.retain(|s| !matches!(s, Setting::Multicall | Setting::NoBinaryName));
    // unique markers for everything displayed (same renaming as C12)
    crate::c12::mark_pub(&mut spec);
    if gate(&spec).is_err() {
        st.count("gate.rejected");
        return;
    }
    st.count("gate.accepted");
    let sseed = rng.next();
    let names_too = rng.chance(2, 3);
    let mut benign = spec.clone();
    fill(&mut benign, &mut Rng::new(sseed), &mut Rng::new(sseed ^ 1), false, names_too);
    let mut adv = spec.clone();
    fill(&mut adv, &mut Rng::new(sseed), &mut Rng::new(sseed ^ 2), true, names_too);
    st.nontrivial(hash_str(&format!("{:?}", adv)));
    let ctx = |s: &CmdSpec| format!("spec={}", brief(s));
    st.eval();
    let pb = match pages(&benign) {
        Ok(p) => p,
        Err(p) => {
            st.violation(format!("panic:man@{}", p.loc), format!("{} | {}", p.msg, ctx(&benign)));
            return;
        }
    };
    st.eval();
    let pa = match pages(&adv) {
        Ok(p) => p,
        Err(p) => {
            st.violation(format!("panic:man@{}", p.loc), format!("{} | {}", p.msg, ctx(&adv)));
            return;
        }
    };
    st.add("pages.rendered", (pa.len() + pb.len()) as u64);
    // determinism
    if let Ok(again) = pages(&adv) {
        if again != pa {
            st.violation("c19:nondeterministic", ctx(&adv));
        }
    }
    st.sample(|| format!("{} pages; adversarial root about {:?}", pa.len(), adv.about));
    // mention / omission on the benign variant
    for (path, page) in &pb {
        let Some(c) = find(&benign, path) else { continue };
        // roff text escapes hyphens
        let page = &page.replace("\\-", "-");
        for a in &c.args {
            if matches!(a.act(), Act::Help | Act::HelpShort | Act::HelpLong | Act::Version) {
                continue;
            }
            let marker: Option<String> = if let Some(l) = &a.long {
                Some(l.clone())
            } else if a.takes_values() {
                a.value_names.first().cloned()
            } else {
                // a short-only flag: its bold entry `\fB-x\fR` (SYNOPSIS and OPTIONS)
                a.short.map(|c| format!("\\fB-{}\\fR", c))
            };
            let Some(m) = marker else { continue };
            if a.long.is_none() && !a.takes_values() {
                st.count("arg-checked.short-only");
            }
            if a.hide {
                st.count("hidden.arg-checked");
                if page.contains(&m) {
                    let line = page.lines().find(|l| l.contains(&m)).unwrap_or("");
                    let sig = if a.is_positional() { "c19:hidden-positional-listed" } else { "c19:hidden-option-listed" };
                    st.violation(sig, format!("{} ({}) on page {}: {:?} | {}", a.id, m, path, line, ctx(&benign)));
                    return;
                }
            } else {
                st.count("visible.arg-checked");
                if !page.contains(&m) {
                    st.violation("c19:visible-arg-missing", format!("{} ({}) not on page {} | {}", a.id, m, path, ctx(&benign)));
                    return;
                }
            }
        }
        // the generated `help` subcommand is a visible subcommand like any other (disable_help_subcommand
        // is inherited from every level above)
        if !c.subs.is_empty() && !c.subs.iter().any(|s| s.name == "help") {
            let mut cur = &benign;
            let mut disabled = cur.has(Setting::DisableHelpSubcommand);
            for p in path.split('/').skip(1) {
                if let Some(n) = cur.sub(p) {
                    cur = n;
                    disabled |= cur.has(Setting::DisableHelpSubcommand);
                }
            }
            if !disabled {
                st.count("visible.help-subcommand-checked");
                if !page.contains("-help(") {
                    st.violation("c19:visible-subcommand-missing:generated-help", format!("no `…-help(N)` entry on page {} | {}", path, ctx(&benign)));
                    return;
                }
            }
        }
        for s in &c.subs {
            if s.has(Setting::Hide) {
                st.count("hidden.subcommand-checked");
                if page.contains(s.name.as_str()) {
                    st.violation("c19:hidden-subcommand-listed", format!("{} on page {} | {}", s.name, path, ctx(&benign)));
                    return;
                }
            } else {
                st.count("visible.subcommand-checked");
                if !page.contains(s.name.as_str()) {
                    st.violation("c19:visible-subcommand-missing", format!("{} not on page {} | {}", s.name, path, ctx(&benign)));
                    return;
                }
            }
        }
    }
    // control lines fixed by the generator
    if pa.len() != pb.len() {
        st.violation("c19:page-set-differs", format!("{} vs {} pages | {}", pa.len(), pb.len(), ctx(&adv)));
        return;
    }
    for ((path, a), (_, b)) in pa.iter().zip(pb.iter()) {
        st.count("control.pages-compared");
        let ca = control_lines(a);
        let cb = control_lines(b);
        if ca != cb {
            let extra: Vec<_> = ca.iter().filter(|(k, v)| cb.get(*k) != Some(*v)).map(|(k, v)| format!("{} x{} (benign x{})", k.0, v, cb.get(k).copied().unwrap_or(0))).collect();
            // show an offending line
            let off = a.lines().find(|l| (l.starts_with('.') || l.starts_with('\'')) && !b.lines().any(|m| m.split_whitespace().next() == l.split_whitespace().next())).unwrap_or("");
            // which slot class: heading-like (control-line argument) or body text
            let in_arg = extra.iter().any(|e| e.starts_with(".SH") || e.starts_with(".TH"));
            let sig = if in_arg { "c19:control-lines-differ:control-line-argument" } else { "c19:control-lines-differ" };
            st.violation(sig, format!("page {}: {:?}; e.g. line {:?} | {}", path, extra, off, ctx(&adv)));
            return;
        }
    }
}
