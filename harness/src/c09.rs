//! C09 — subcommand dispatch follows argv, and global arguments agree at every level.

use crate::core::*;
use crate::model::*;
use crate::spec::*;
use std::collections::BTreeMap;

/// copy of the tree in which every level also lists the globals it inherits (same ids), so that
/// intents can supply a global at any level at or below its definition
fn with_inherited(c: &CmdSpec, inherited: &[ArgSpec]) -> CmdSpec {
    let mut v = c.clone();
    let mut down: Vec<ArgSpec> = inherited.to_vec();
    for a in &c.args {
        if a.global {
            down.push(a.clone());
        }
    }
    // inherited options go in front of the positionals (argument order is irrelevant to the model)
    let mut args: Vec<ArgSpec> = inherited.to_vec();
    args.extend(v.args.drain(..));
    v.args = args;
    v.subs = c.subs.iter().map(|s| with_inherited(s, &down)).collect();
    v
}

/// for every global on the chain: the deepest level with a command-line occurrence wins and is
/// visible at every level from its definition down
fn settle_globals(view: &CmdSpec, exp: &mut LevelExp, defined_above: &[String]) {
    // collect chain
    fn chain<'a>(view: &'a CmdSpec, exp: &'a mut LevelExp, out: &mut Vec<(&'a CmdSpec, *mut LevelExp)>) {
        let p: *mut LevelExp = exp;
        out.push((view, p));
        if let Some((name, sub)) = exp.sub.as_mut() {
            if let Some(s) = view.sub(name) {
                chain(s, sub, out);
            }
        }
    }
    let mut levels: Vec<(&CmdSpec, *mut LevelExp)> = vec![];
    chain(view, exp, &mut levels);
    let _ = defined_above;
    // global ids with the first level at which they are visible
    let mut ids: BTreeMap<String, usize> = BTreeMap::new();
    for (li, (spec, _)) in levels.iter().enumerate() {
        for a in &spec.args {
            if a.global {
                ids.entry(a.id.clone()).or_insert(li);
            }
        }
    }
    for (id, from) in ids {
        // SAFETY: the raw pointers address distinct nodes of one tree that outlives this loop
        let mut best: Option<ArgExp> = None;
        for (_, p) in levels.iter().skip(from) {
            let e = unsafe { &**p };
            if let Some(x) = e.args.get(&id) {
                let rank = |s: Option<Src>| match s {
                    Some(Src::Cli) => 3,
                    Some(Src::Env) => 2,
                    Some(Src::Default) => 1,
                    None => 0,
                };
                let better = match &best {
                    None => true,
                    Some(b) => rank(x.source) >= rank(b.source),
                };
                if better {
                    best = Some(x.clone());
                }
            }
        }
        if let Some(b) = best {
            for (_, p) in levels.iter().skip(from) {
                let e = unsafe { &mut **p };
                if e.args.contains_key(&id) {
                    e.args.insert(id.clone(), b.clone());
                }
            }
        }
    }
}

pub fn case(seed: u64, st: &mut Stats) {
    let mut rng = Rng::new(seed);
    let mut o = ConvOpts::full();
    o.globals = true;
    o.external = true;
    o.defaults = true;
    o.required = false;
    o.max_subs = 2;
    let mut spec = conv_cmd(&mut rng, &o);
    // with the generated `help` subcommand switched off, `help` is an ordinary subcommand name
    if rng.chance(1, 8) {
        fn rename(rng: &mut Rng, c: &mut CmdSpec) -> bool {
            if !c.subs.is_empty() && rng.coin() {
                let i = rng.below(c.subs.len());
                if !c.subs.iter().any(|s| s.name == "help" || s.aliases.iter().any(|(a, _)| a == "help")) {
                    c.subs[i].name = "help".into();
                    return true;
                }
            }
            for s in c.subs.iter_mut() {
                if rename(rng, s) {
                    return true;
                }
            }
            false
        }
        if rename(&mut rng, &mut spec) {
            spec.set(Setting::DisableHelpSubcommand);
            st.count("spec.user-defined-help-subcommand");
        }
    }
    // the empty string is a name like any other: a subcommand called `""` (or with that alias) is
    // named by an empty token
    if rng.chance(1, 10) {
        fn empty_name(rng: &mut Rng, c: &mut CmdSpec) -> bool {
            if !c.subs.is_empty() && rng.coin() {
                if !c.subs.iter().any(|s| s.name.is_empty() || s.aliases.iter().any(|(a, _)| a.is_empty())) {
                    let i = rng.below(c.subs.len());
                    if rng.coin() {
                        c.subs[i].name = String::new();
                    } else {
                        c.subs[i].aliases.push((String::new(), rng.coin()));
                    }
                    return true;
                }
            }
            for s in c.subs.iter_mut() {
                if empty_name(rng, s) {
                    return true;
                }
            }
            false
        }
        if empty_name(&mut rng, &mut spec) {
            st.count("spec.subcommand-with-empty-name-or-alias");
        }
    }
    let cmd = match gate(&spec) {
        Ok(c) => c,
        Err(p) => {
            st.count("gate.rejected");
            st.note(|| format!("gate: {} | {}", p.msg, brief(&spec)));
            return;
        }
    };
    st.count("gate.accepted");
    let view = with_inherited(&spec, &[]);
    let io = IntentOpts::default();
    let env = BTreeMap::new();
    for _ in 0..4 {
        let intent = gen_intent(&mut rng, &view, &io);
        let mut style = Style::random(&mut rng);
        style.merge_flag_sub = if rng.coin() { 80 } else { 0 };
        let r = render(&mut rng, &view, &intent, &style);
        st.eval();
        st.nontrivial(mix(hash_str(&format!("{:?}", spec)), hash_str(&show_argv(&r.argv))));
        st.sample(|| format!("argv={}", show_argv(&r.argv)));
        let ctx = || format!("argv={} | features={:?} | spec={}", show_argv(&r.argv), r.features, brief(&spec));
        let res = match catch(|| cmd.clone().try_get_matches_from(r.argv.clone())) {
            Ok(x) => x,
            Err(p) => {
                st.violation(format!("panic:parse@{}", p.loc), format!("{} | {}", p.msg, ctx()));
                continue;
            }
        };
        let m = match res {
            Ok(m) => m,
            Err(e) => {
                let parent_flags = r.features.contains(&"cluster.parent-flags-before-flag-sub");
                let sig = if parent_flags {
                    format!("c09:valid-line-rejected:flag-subcommand-after-parent-flags-in-cluster:{:?}", e.kind())
                } else {
                    format!("c09:valid-line-rejected:{:?}", e.kind())
                };
                st.violation(sig, format!("{} | {}", e.render().to_string().lines().next().unwrap_or(""), ctx()));
                continue;
            }
        };
        st.count("result.ok");
        for f in &r.features {
            if f.starts_with("sub.") || f.starts_with("cluster.") {
                st.count(&format!("spelling.{}", f));
            }
        }
        let obs = observe(&view, &m, &[]);
        let mut exp = expect_level(&view, &intent, &env);
        settle_globals(&view, &mut exp, &[]);
        // count global situations
        fn count_globals(view: &CmdSpec, li: &LevelIntent, depth: usize, st: &mut Stats) {
            for it in &li.items {
                let ai = match it {
                    Item::Flag { arg } | Item::Opt { arg, .. } => *arg,
                    _ => continue,
                };
                if view.args[ai].global {
                    st.count(&format!("global.supplied-at-depth-{}", depth));
                }
            }
            if let Some((si, ch)) = &li.sub {
                count_globals(&view.subs[*si], ch, depth + 1, st);
            }
        }
        count_globals(&view, &intent, 0, st);
        if let Some((kind, d)) = diff_level(&view, &exp, &obs, "") {
            let is_global = {
                // does the differing id belong to a global?
                let id = d.split(':').next().unwrap_or("").rsplit('/').next().unwrap_or("").to_string();
                fn any_global(c: &CmdSpec, id: &str) -> bool {
                    c.args.iter().any(|a| a.id == id && a.global) || c.subs.iter().any(|s| any_global(s, id))
                }
                any_global(&view, &id)
            };
            let sig = if kind.starts_with("external") {
                format!("c09:{}", kind)
            } else if kind == "subcommand" {
                "c09:chain".to_string()
            } else if is_global {
                format!("c09:global:{}", kind)
            } else {
                format!("c09:level-args:{}", kind)
            };
            st.violation(sig, format!("{} | {}", d, ctx()));
            continue;
        }
        if intent_has_external(&intent) {
            st.count("external.checked");
        }
    }
}

fn intent_has_external(li: &LevelIntent) -> bool {
    li.external.is_some() || li.sub.as_ref().map(|s| intent_has_external(&s.1)).unwrap_or(false)
}
