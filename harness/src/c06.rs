//! C06 — command line beats environment beats (conditional) default; sources are honest;
//! defaults never count as presence.

use crate::core::*;
use crate::model::{split_tok, Src};
use crate::spec::*;
use clap::error::ErrorKind;
use std::collections::BTreeMap;
use std::ffi::OsString;

#[derive(Clone, Debug)]
enum Cli {
    Absent,
    /// occurrences of value tokens (empty vec = present without value)
    Given(Vec<Vec<String>>),
    Flag,
}

/// A global argument whose id the invoked subcommand declares again (with a default of its own):
/// the strongest origin over the chain is what both levels report.
fn global_redeclared(rng: &mut Rng, st: &mut Stats) {
    use clap::{Arg, ArgAction, Command};
    let var = "CLAPV_GLOBAL";
    let env_set = rng.chance(2, 3);
    if env_set {
        std::env::set_var(var, "genv");
    } else {
        std::env::remove_var(var);
    }
    let child_default = rng.chance(3, 4);
    let mut child = Arg::new("x").long("x").action(ArgAction::Set);
    if child_default {
        child = child.default_value("childdef");
    }
    let cmd = Command::new("prog")
        .arg(Arg::new("x").long("x").global(true).env(var).action(ArgAction::Set))
        .arg(Arg::new("other").long("other").action(ArgAction::SetTrue))
        .subcommand(Command::new("sub").arg(child).arg(Arg::new("y").long("y").action(ArgAction::SetTrue)));
    let (root_cli, child_cli) = match rng.below(4) {
        0 => (true, false),
        1 => (false, true),
        _ => (false, false),
    };
    let mut argv: Vec<OsString> = vec!["prog".into()];
    if rng.coin() {
        argv.push("--other".into());
    }
    if root_cli {
        argv.extend(["--x".into(), "rootcli".into()]);
    }
    argv.push("sub".into());
    if child_cli {
        argv.extend(["--x".into(), "childcli".into()]);
    }
    if rng.coin() {
        argv.push("--y".into());
    }
    st.eval();
    let want: Option<(Src, &str)> = if root_cli {
        Some((Src::Cli, "rootcli"))
    } else if child_cli {
        Some((Src::Cli, "childcli"))
    } else if env_set {
        Some((Src::Env, "genv"))
    } else {
        None // only defaults left: which level's default shows where is not fixed by the property
    };
    let ctx = || format!("argv={} env {}={} child default={}", show_argv(&argv), var, if env_set { "genv" } else { "<unset>" }, child_default);
    match catch(|| cmd.clone().try_get_matches_from(argv.clone())) {
        Err(p) => st.violation(format!("panic:parse@{}", p.loc), format!("{} | {}", p.msg, ctx())),
        Ok(Err(e)) => st.violation(format!("c06:valid-line-rejected:{:?}", e.kind()), ctx()),
        Ok(Ok(m)) => {
            if let Some((src, val)) = want {
                st.count(&format!("lattice.global-redeclared.{:?}", src));
                let sm = m.subcommand_matches("sub");
                for (lvl, lm) in [("prog", Some(&m)), ("sub", sm)] {
                    let Some(lm) = lm else {
                        st.violation("c06:global-redeclared", format!("no `sub` matches | {}", ctx()));
                        break;
                    };
                    let got_src = crate::model::src_of(lm.value_source("x"));
                    let got_val = lm.try_get_one::<String>("x").ok().flatten().cloned();
                    if got_src != Some(src) || got_val.as_deref() != Some(val) {
                        st.violation(
                            "c06:global-redeclared",
                            format!("level {}: x = {:?} from {:?}, expected {:?} from {:?} | {}", lvl, got_val, got_src, val, src, ctx()),
                        );
                        break;
                    }
                }
            }
        }
    }
    std::env::remove_var(var);
}

type Expect = (Option<Src>, Vec<Vec<String>>, Option<bool>);

/// every argument's reported source and values against the model
fn compare_args(st: &mut Stats, c: &CmdSpec, cli: &[Cli], expect: &[Expect], m: &clap::ArgMatches, pfx: &str, ctx: &dyn Fn() -> String) {
    for i in 0..c.args.len() {
        let a = &c.args[i];
        let id = a.id.as_str();
        let src = crate::model::src_of(m.value_source(id));
        let (esrc, eocc, eflag) = &expect[i];
        if let Some(s) = esrc {
            st.count(&format!("lattice.{:?}", s));
        } else {
            st.count("lattice.absent");
        }
        if src != *esrc {
            st.violation(format!("{}:source:{:?}-reported-{:?}", pfx, esrc, src), format!("{} | {}", id, ctx()));
            return;
        }
        if esrc.is_none() {
            if m.try_contains_id(id).ok() != Some(false) {
                st.violation(format!("{}:absent-but-contains", pfx), format!("{} | {}", id, ctx()));
            }
            continue;
        }
        if a.takes_values() {
            let occ: Vec<Vec<String>> = m
                .try_get_raw_occurrences(id)
                .ok()
                .flatten()
                .map(|o| o.map(|v| v.map(|x| show_bytes(os_bytes(x))).collect()).collect())
                .unwrap_or_default();
            // defaults with several values form one occurrence; compare flattened for Default/Env
            let same = if *esrc == Some(Src::Cli) { &occ == eocc } else { occ.concat() == eocc.concat() };
            if !same {
                let which = match (esrc, matches!(&cli[i], Cli::Given(o) if o.iter().any(|t| t.is_empty()))) {
                    (Some(Src::Cli), true) => "missing-value-default",
                    (Some(Src::Cli), false) => "cli-values",
                    (Some(Src::Env), _) => "env-values",
                    _ => "default-values",
                };
                st.violation(format!("{}:values:{}", pfx, which), format!("{}: expected {:?} observed {:?} | {}", id, eocc, occ, ctx()));
                return;
            }
            if matches!(&cli[i], Cli::Given(o) if o.iter().any(|t| t.is_empty())) {
                st.count("lattice.default_missing_used");
            }
        } else {
            let v = m.try_get_one::<bool>(id).ok().flatten().copied();
            if v != *eflag {
                st.violation(format!("{}:flag-value", pfx), format!("{}: expected {:?} observed {:?} | {}", id, eflag, v, ctx()));
                return;
            }
        }
    }
}

pub fn case(seed: u64, st: &mut Stats) {
    let mut rng = Rng::new(seed);
    if rng.chance(1, 6) {
        global_redeclared(&mut rng, st);
    }
    let n = rng.range(2, 5);
    let mut c = CmdSpec { name: "prog".into(), ..Default::default() };
    let longs = ["alpha", "beta", "gamma", "delta", "omega"];
    let shorts = ['a', 'b', 'g', 'd', 'o'];
    let mut env: BTreeMap<String, String> = BTreeMap::new();
    for i in 0..n {
        let mut a = ArgSpec { id: format!("x{}", i), long: Some(longs[i].into()), short: Some(shorts[i]), ..Default::default() };
        let is_flag = rng.chance(1, 4);
        if is_flag {
            a.action = Some(if rng.coin() { Act::SetTrue } else { Act::SetFalse });
            if rng.chance(1, 2) {
                let var = format!("CLAPV_{}", i);
                if rng.coin() {
                    // the documented pattern for flags with an environment variable: anything but a
                    // false-like literal (or the empty string) switches the flag on
                    a.vp = Some(Vp::Falsey);
                    if rng.chance(2, 3) {
                        env.insert(var.clone(), (*rng.pick(&["", "true", "false", "0", "no", "off", "x", "yes", "1", "FALSE", "n", " "])).to_string());
                    }
                } else if rng.chance(2, 3) {
                    env.insert(var.clone(), if rng.coin() { "true".into() } else { "false".into() });
                }
                a.env = Some(var);
            }
        } else {
            a.action = Some(if rng.chance(2, 3) { Act::Set } else { Act::Append });
            if rng.chance(1, 4) {
                a.delim = Some(',');
            }
            if rng.chance(1, 3) {
                a.num_args = Some((0, 1));
                // (without a missing-value default a bare occurrence stays an occurrence without
                // values: still from the command line, nothing from the environment or a default on top)
                a.default_missing = if rng.chance(1, 3) { vec![] } else { vec![format!("x{}missing", i)] };
                if rng.coin() {
                    a.require_equals = true;
                }
            }
            if rng.chance(1, 2) {
                a.defaults = if a.delim.is_some() && rng.coin() { vec![format!("x{}def0", i), format!("x{}def1", i)] } else { vec![format!("x{}def", i)] };
            }
            if rng.chance(1, 2) {
                let var = format!("CLAPV_{}", i);
                if rng.chance(2, 3) {
                    let mut v = if a.delim.is_some() && rng.coin() { format!("x{}env0,x{}env1", i, i) } else { format!("x{}env", i) };
                    // a variable may hold bytes that are not UTF-8 (`\xHH` = the raw byte); an
                    // argument that takes OS strings has to get them unchanged
                    if rng.chance(1, 4) {
                        a.vp = Some(Vp::Os);
                        v = match rng.below(3) {
                            0 => format!("{}\\xE9", v),
                            1 => format!("\\xFF{}", v),
                            _ => v.replacen("env", "e\\xC3nv", 1),
                        };
                    }
                    env.insert(var.clone(), v);
                }
                a.env = Some(var);
            }
        }
        c.args.push(a);
    }
    // conditional defaults: conditions only on value-taking args that have no default of their own
    // (a defaulted condition argument makes the outcome depend on definition order; not judged)
    let plain: Vec<usize> = (0..n).filter(|i| c.args[*i].takes_values() && c.args[*i].defaults.is_empty()).collect();
    for i in 0..n {
        // condition targets carry no (conditional) default themselves
        if !c.args[i].takes_values() || plain.is_empty() || plain.contains(&i) {
            continue;
        }
        for _ in 0..rng.below(3) {
            let j = *rng.pick(&plain);
            if j == i {
                continue;
            }
            let pred = if rng.coin() { Some(format!("x{}o0v0", j)) } else { None };
            let def = if rng.chance(4, 5) { Some(format!("x{}if{}", i, j)) } else { None };
            c.args[i].default_ifs.push((format!("x{}", j), pred, def));
        }
    }
    // relations that a default must not trigger
    let mut conflict: Option<(usize, usize)> = None;
    let mut requires: Option<(usize, usize)> = None;
    if n >= 2 && rng.chance(1, 2) {
        let x = rng.below(n);
        let y = (x + 1 + rng.below(n - 1)) % n;
        c.args[x].conflicts.push(format!("x{}", y));
        conflict = Some((x, y));
    }
    if !plain.is_empty() && rng.chance(1, 2) {
        let z = *rng.pick(&plain);
        let x = rng.below(n);
        // (a required argument that conflicts with a present one is excused: keep z out of the conflict pair)
        let in_conflict = conflict.map(|(p, q)| p == z || q == z).unwrap_or(false);
        if x != z && c.args[z].env.is_none() && c.args[z].default_ifs.is_empty() && !in_conflict {
            c.args[x].requires.push(format!("x{}", z));
            requires = Some((x, z));
        }
    }
    // an override relation: only command-line occurrences may remove the other argument
    let mut overrides: Option<(usize, usize)> = None;
    if n >= 2 && rng.chance(1, 3) {
        let x = rng.below(n);
        let y = (x + 1 + rng.below(n - 1)) % n;
        let clash = |p: Option<(usize, usize)>| p.map(|(a, b)| (a == x && b == y) || (a == y && b == x)).unwrap_or(false);
        // a required argument that is in an override pair is excused when its partner is present
        let touches_required_target = requires.map(|(_, z)| z == x || z == y).unwrap_or(false);
        if !clash(conflict) && !clash(requires) && !touches_required_target {
            c.args[x].overrides.push(format!("x{}", y));
            overrides = Some((x, y));
        }
    }
    // a (multiple) group: present exactly through explicitly supplied members, with the strongest
    // source among them; an argument outside may conflict with the group as a whole
    let mut group: Option<Vec<usize>> = None;
    let mut group_conflict: Option<usize> = None;
    if rng.chance(1, 2) {
        let mut members: Vec<usize> = (0..n).filter(|_| rng.coin()).collect();
        if members.is_empty() {
            members.push(rng.below(n));
        }
        let outside: Vec<usize> = (0..n).filter(|i| !members.contains(i)).collect();
        if conflict.is_none() && requires.is_none() && overrides.is_none() && !outside.is_empty() && rng.coin() {
            let x = *rng.pick(&outside);
            c.args[x].conflicts.push("g0".into());
            group_conflict = Some(x);
        }
        c.groups.push(GroupSpec { id: "g0".into(), members: members.iter().map(|i| format!("x{}", i)).collect(), multiple: true, ..Default::default() });
        group = Some(members);
    }
    let help_else = rng.chance(1, 5);
    if help_else {
        c.set(Setting::ArgRequiredElseHelp);
    }
    // environment must be in place before the command is built: clap reads it in `Arg::env`
    for i in 0..8 {
        let var = format!("CLAPV_{}", i);
        match env.get(&var) {
            Some(v) => std::env::set_var(&var, enc_escapes(v)),
            None => std::env::remove_var(&var),
        }
    }
    let cmd = match gate(&c) {
        Ok(cmd) => cmd,
        Err(p) => {
            st.count("gate.rejected");
            st.note(|| format!("gate: {} | {}", p.msg, brief(&c)));
            return;
        }
    };
    for _ in 0..4 {
        // command line
        let mut cli: Vec<Cli> = vec![];
        let mut argv: Vec<OsString> = vec!["prog".into()];
        let mut order: Vec<usize> = (0..n).collect();
        rng.shuffle(&mut order);
        let mut per: BTreeMap<usize, Cli> = BTreeMap::new();
        for &i in &order {
            let a = &c.args[i];
            if rng.chance(1, 2) {
                per.insert(i, Cli::Absent);
                continue;
            }
            if !a.takes_values() {
                argv.push(format!("--{}", a.long.as_ref().unwrap()).into());
                per.insert(i, Cli::Flag);
                continue;
            }
            let nocc = if a.act() == Act::Append { rng.range(1, 2) } else { 1 };
            let mut occs = vec![];
            for k in 0..nocc {
                let can_bare = a.num_args == Some((0, 1));
                if can_bare && rng.chance(1, 2) {
                    // present without a value: must be followed by a dash token or the end; give it its own token at the end later
                    argv.push(format!("--{}", a.long.as_ref().unwrap()).into());
                    // ensure closure by a harmless following flag-looking token: use `--` free approach: push at end instead
                    occs.push(vec![]);
                    // a bare occurrence swallows a following bare token; we only ever follow it by `--name` tokens or the end
                } else {
                    let v = if a.delim.is_some() && rng.coin() { format!("x{}o{}v0,x{}o{}v1", i, k, i, k) } else { format!("x{}o{}v0", i, k) };
                    if a.require_equals || rng.coin() {
                        argv.push(format!("--{}={}", a.long.as_ref().unwrap(), v).into());
                    } else {
                        argv.push(format!("--{}", a.long.as_ref().unwrap()).into());
                        argv.push(v.clone().into());
                    }
                    occs.push(vec![v]);
                }
            }
            per.insert(i, Cli::Given(occs));
        }
        if let Some((x, y)) = overrides {
            // `order` is the argv order of first appearance; whichever of the pair comes later wins
            let px = order.iter().position(|i| *i == x);
            let py = order.iter().position(|i| *i == y);
            let gx = !matches!(per.get(&x), Some(Cli::Absent) | None);
            let gy = !matches!(per.get(&y), Some(Cli::Absent) | None);
            if gx && gy {
                let loser = if px < py { x } else { y };
                per.insert(loser, Cli::Absent);
                st.count("lattice.cli-override-removed");
            }
        }
        for i in 0..n {
            cli.push(per.get(&i).cloned().unwrap_or(Cli::Absent));
        }
        st.eval();
        st.nontrivial(mix(hash_str(&format!("{:?}{:?}", c, env)), hash_str(&show_argv(&argv))));
        st.sample(|| format!("argv={} env={:?}", show_argv(&argv), env));
        // ---- model
        let explicit = |i: usize| -> bool { !matches!(cli[i], Cli::Absent) || c.args[i].env.as_ref().map(|v| env.contains_key(v)).unwrap_or(false) };
        // raw values of explicit args (needed by default_if Equals)
        let mut expect: Vec<(Option<Src>, Vec<Vec<String>>, Option<bool>)> = vec![(None, vec![], None); n];
        for i in 0..n {
            let a = &c.args[i];
            match (&cli[i], a.takes_values()) {
                (Cli::Flag, _) => expect[i] = (Some(Src::Cli), vec![], Some(a.act() == Act::SetTrue)),
                (Cli::Given(occs), _) => {
                    let mut o: Vec<Vec<String>> = occs
                        .iter()
                        .map(|toks| if toks.is_empty() { a.default_missing.clone() } else { toks.iter().flat_map(|t| split_tok(a, t)).collect() })
                        .collect();
                    if a.act() == Act::Set {
                        o = vec![o.last().unwrap().clone()];
                    }
                    expect[i] = (Some(Src::Cli), o, None);
                }
                (Cli::Absent, tv) => {
                    if let Some(v) = a.env.as_ref().and_then(|v| env.get(v)) {
                        if tv {
                            if v.contains("\\x") {
                                st.count("lattice.env-value-not-utf8");
                            }
                            expect[i] = (Some(Src::Env), vec![split_tok(a, v)], None);
                        } else if a.vp == Some(Vp::Falsey) {
                            let falsey = v.is_empty() || ["n", "no", "f", "false", "off", "0"].contains(&v.to_ascii_lowercase().as_str());
                            st.count(if v.is_empty() { "lattice.flag-env-empty" } else { "lattice.flag-env-falsey-parser" });
                            expect[i] = (Some(Src::Env), vec![], Some(!falsey));
                        } else {
                            expect[i] = (Some(Src::Env), vec![], Some(v == "true"));
                        }
                    }
                }
            }
        }
        for i in 0..n {
            let a = &c.args[i];
            if expect[i].0.is_some() {
                continue;
            }
            if !a.takes_values() {
                expect[i] = (Some(Src::Default), vec![], Some(a.act() != Act::SetTrue));
                continue;
            }
            let mut decided = false;
            for (other, pred, def) in &a.default_ifs {
                let j: usize = other[1..].parse().unwrap();
                let hit = explicit(j)
                    && match pred {
                        None => true,
                        Some(v) => expect[j].1.iter().flatten().any(|x| x == v),
                    };
                if hit {
                    if let Some(d) = def {
                        expect[i] = (Some(Src::Default), vec![split_tok(a, d)], None);
                        st.count("lattice.default_if_fired");
                    } else {
                        st.count("lattice.default_if_unset");
                    }
                    decided = true;
                    break;
                }
            }
            if !decided && !a.defaults.is_empty() {
                expect[i] = (Some(Src::Default), vec![a.defaults.clone()], None);
            }
        }
        // expected verdict
        let mut exp_err: Option<ErrorKind> = None;
        if let Some((x, y)) = conflict {
            if explicit(x) && explicit(y) {
                exp_err = Some(ErrorKind::ArgumentConflict);
            }
        }
        if let (Some(x), Some(members)) = (group_conflict, &group) {
            if explicit(x) && members.iter().any(|i| explicit(*i)) {
                exp_err = Some(ErrorKind::ArgumentConflict);
                st.count("lattice.group-conflict");
            }
        }
        if exp_err.is_none() {
            if let Some((x, y)) = overrides {
                if explicit(x) && explicit(y) {
                    // one from the command line, the other from the environment: nothing was removed,
                    // and overrides are implicitly conflicts (validated before requirements)
                    exp_err = Some(ErrorKind::ArgumentConflict);
                    st.count("lattice.override-env-vs-cli-conflict");
                }
            }
        }
        if exp_err.is_none() {
            if let Some((x, z)) = requires {
                if explicit(x) && !explicit(z) {
                    exp_err = Some(ErrorKind::MissingRequiredArgument);
                }
            }
        }
        let any_explicit = (0..n).any(explicit);
        if help_else && !any_explicit {
            exp_err = Some(ErrorKind::DisplayHelpOnMissingArgumentOrSubcommand);
        }
        let any_cli = cli.iter().any(|x| !matches!(x, Cli::Absent));
        // ---- run
        let ctx = || format!("argv={} env={:?} | spec={}", show_argv(&argv), env, brief(&c));
        let got = match catch(|| cmd.clone().try_get_matches_from(argv.clone())) {
            Ok(g) => g,
            Err(p) => {
                st.violation(format!("panic:parse@{}", p.loc), format!("{} | {}", p.msg, ctx()));
                continue;
            }
        };
        match (got, exp_err) {
            (Err(e), Some(k)) => {
                st.count("verdict.err-as-expected");
                if e.kind() != k {
                    st.violation(format!("c06:error-kind:{:?}-expected-{:?}", e.kind(), k), ctx());
                }
            }
            (Err(e), None) => {
                let from_default = matches!(e.kind(), ErrorKind::ArgumentConflict | ErrorKind::MissingRequiredArgument | ErrorKind::DisplayHelpOnMissingArgumentOrSubcommand);
                st.violation(
                    if from_default { format!("c06:default-triggered:{:?}", e.kind()) } else { format!("c06:valid-line-rejected:{:?}", e.kind()) },
                    format!("{} | {}", e.render().to_string().lines().next().unwrap_or(""), ctx()),
                );
            }
            (Ok(_), Some(k)) => st.violation(format!("c06:expected-error-missing:{:?}", k), ctx()),
            (Ok(m), None) => {
                st.count("verdict.ok");
                if m.args_present() != any_explicit && m.args_present() != any_cli {
                    st.violation("c06:args_present", format!("args_present()={} but explicit={} cli={} | {}", m.args_present(), any_explicit, any_cli, ctx()));
                }
                if let Some(members) = &group {
                    let present: Vec<usize> = members.iter().copied().filter(|i| explicit(*i)).collect();
                    let want_src = if present.iter().any(|i| !matches!(cli[*i], Cli::Absent)) {
                        Some(Src::Cli)
                    } else if !present.is_empty() {
                        Some(Src::Env)
                    } else {
                        None
                    };
                    st.count(&format!("lattice.group.{:?}", want_src));
                    let have_src = crate::model::src_of(m.value_source("g0"));
                    let have_contains = m.try_contains_id("g0").ok();
                    let mut have_ids: Vec<String> = m.try_get_many::<clap::Id>("g0").ok().flatten().map(|v| v.map(|x| x.as_str().to_string()).collect()).unwrap_or_default();
                    have_ids.sort();
                    have_ids.dedup();
                    let want_ids: Vec<String> = present.iter().map(|i| format!("x{}", i)).collect();
                    if have_src != want_src || have_contains != Some(want_src.is_some()) || have_ids != want_ids {
                        st.violation(
                            "c06:group-presence",
                            format!("g0: source {:?} contains {:?} members {:?}; expected source {:?} members {:?} | {}", have_src, have_contains, have_ids, want_src, want_ids, ctx()),
                        );
                        continue;
                    }
                }
                compare_args(st, &c, &cli, &expect, &m, "c06", &ctx);
            }
        }
        // the same line with an unknown option at its end, errors ignored: everything before the
        // error was read, the rest is filled in from environment and defaults in that order
        if rng.chance(1, 3) {
            let mut argv2 = argv.clone();
            argv2.push("--bogusq9".into());
            let ctx2 = || format!("ignore_errors argv={} env={:?} | spec={}", show_argv(&argv2), env, brief(&c));
            match catch(|| cmd.clone().ignore_errors(true).try_get_matches_from(argv2.clone())) {
                Err(p) => st.violation(format!("panic:parse@{}", p.loc), format!("{} | {}", p.msg, ctx2())),
                Ok(Err(e)) => st.violation(format!("c06:after-ignored-error:rejected:{:?}", e.kind()), ctx2()),
                Ok(Ok(m)) => {
                    st.count("verdict.ok-after-ignored-error");
                    compare_args(st, &c, &cli, &expect, &m, "c06:after-ignored-error", &ctx2);
                }
            }
        }
    }
    for i in 0..8 {
        std::env::remove_var(format!("CLAPV_{}", i));
    }
}
