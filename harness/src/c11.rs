//! C11 — parsing is deterministic, re-entrant and independent of build timing.

use crate::core::*;
use crate::gen::*;
use crate::spec::*;
use std::ffi::OsString;

#[derive(Debug, PartialEq, Clone)]
enum Outcome {
    Ok(String),
    Err(String, String), // kind, rendered
    Panic(String),
}

fn run_mut(cmd: &mut clap::Command, argv: &[OsString]) -> (Outcome, Option<clap::ArgMatches>) {
    match catch(|| cmd.try_get_matches_from_mut(argv.to_vec())) {
        Err(p) => (Outcome::Panic(p.loc), None),
        Ok(Ok(m)) => (Outcome::Ok(String::new()), Some(m)),
        Ok(Err(e)) => (Outcome::Err(format!("{:?}", e.kind()), e.render().to_string()), None),
    }
}

pub fn case(seed: u64, st: &mut Stats) {
    let mut rng = Rng::new(seed);
    // wild and conventional specs
    let (spec, cmd) = if rng.coin() {
        match crate::c01::gen_spec(&mut rng, st) {
            Some(x) => x,
            None => return,
        }
    } else {
        let mut o = crate::model::ConvOpts::full();
        o.globals = true;
        o.defaults = true;
        let s = crate::model::conv_cmd(&mut rng, &o);
        match gate(&s) {
            Ok(c) => (s, c),
            Err(_) => return,
        }
    };
    // (multicall: the first word selects the applet; every line of a history is parsed by every
    // variant alike, so the "same program name" premise holds line by line)
    if spec.has(Setting::Multicall) {
        st.count("spec.multicall");
    }
    // idempotent build
    {
        let mut b = cmd.clone();
        let r = catch(|| {
            b.build();
            let d1 = format!("{:?}", b);
            b.build();
            let d2 = format!("{:?}", b);
            (d1, d2)
        });
        st.eval();
        match r {
            Err(p) => st.violation(format!("panic:build@{}", p.loc), format!("{} | spec={}", p.msg, brief(&spec))),
            Ok((d1, d2)) => {
                st.count("build.idempotence-checked");
                if d1 != d2 {
                    let pos = d1.bytes().zip(d2.bytes()).position(|(a, b)| a != b).unwrap_or(0);
                    st.violation(
                        "c11:build-not-idempotent",
                        format!("debug dump differs at byte {}: …{:?} vs …{:?} | spec={}", pos, &d1[pos.saturating_sub(40)..(pos + 60).min(d1.len())], &d2[pos.saturating_sub(40)..(pos + 60).min(d2.len())], brief(&spec)),
                    );
                }
            }
        }
    }
    let mut long_lived = cmd.clone();
    let nsteps = rng.range(2, 10);
    let mut history: Vec<String> = vec![];
    for _ in 0..nsteps {
        let op = rng.below(10);
        match op {
            0 => {
                let _ = catch(|| long_lived.build());
                history.push("build".into());
            }
            1 => {
                let _ = catch(|| long_lived.render_help().to_string());
                history.push("render_help".into());
            }
            2 => {
                let _ = catch(|| long_lived.render_long_help().to_string());
                history.push("render_long_help".into());
            }
            3 => {
                let _ = catch(|| long_lived.render_usage().to_string());
                history.push("render_usage".into());
            }
            4 => {
                long_lived = long_lived.clone();
                history.push("clone".into());
            }
            _ => {
                let argv = hostile_argv(&mut rng, &spec, 7);
                st.eval();
                st.nontrivial(mix(hash_str(&format!("{:?}", spec)), hash_str(&format!("{:?}{}", history, show_argv(&argv)))));
                st.sample(|| format!("history={:?} then parse {}", history, show_argv(&argv)));
                // reference: fresh value
                let mut fresh = cmd.clone();
                let (rf, mf) = run_mut(&mut fresh, &argv);
                // same call repeated on a second fresh value
                let mut fresh2 = cmd.clone();
                let (rf2, mf2) = run_mut(&mut fresh2, &argv);
                // prebuilt
                let mut pre = cmd.clone();
                let _ = catch(|| pre.build());
                let (rp, mp) = run_mut(&mut pre, &argv);
                // reused
                let (rl, ml) = run_mut(&mut long_lived, &argv);
                history.push(format!("parse{}", show_argv(&argv)));
                let ctx = || format!("history={:?} | spec={}", history, brief(&spec));
                if let Outcome::Panic(loc) = &rf {
                    st.violation(format!("panic:parse@{}", loc), ctx());
                    continue;
                }
                let flatten = {
                    fn any(c: &CmdSpec) -> bool {
                        c.has(Setting::FlattenHelp) || c.subs.iter().any(any)
                    }
                    any(&spec)
                };
                let cmp = |name: &str, r: &Outcome, m: &Option<clap::ArgMatches>, messages: bool, st: &mut Stats| {
                    match (&rf, r) {
                        (Outcome::Ok(_), Outcome::Ok(_)) => {
                            st.count("agree.ok");
                            if mf != *m {
                                st.violation(format!("c11:{}:matches-differ", name), ctx());
                            }
                        }
                        (Outcome::Err(k1, m1), Outcome::Err(k2, m2)) => {
                            st.count("agree.err");
                            if k1 != k2 {
                                // discriminating fact for the known finding: a `help … help` path whose
                                // resolution depends on whether the help tree was expanded by build()
                                let helps = argv.iter().filter(|t| *t == "help").count();
                                let pair = (k1.as_str() == "InvalidSubcommand" && k2.as_str() == "DisplayHelp") || (k2.as_str() == "InvalidSubcommand" && k1.as_str() == "DisplayHelp");
                                let sig = if helps >= 2 && pair && name != "reused" && name != "repeat" {
                                    format!("c11:{}:error-kind-differs:help-of-help-path", name)
                                } else {
                                    format!("c11:{}:error-kind-differs", name)
                                };
                                st.violation(sig, format!("{} vs {} | {}", k1, k2, ctx()));
                            } else if messages && m1 != m2 {
                                let a: Vec<&str> = m1.lines().collect();
                                let b: Vec<&str> = m2.lines().collect();
                                let i = a.iter().zip(b.iter()).position(|(x, y)| x != y).unwrap_or(a.len().min(b.len()));
                                // discriminating fact for the known finding: the messages differ only in
                                // how the auto-generated `help` subcommand is drawn in a usage line
                                let norm = |s: &str| s.replace("help [COMMAND]...", "help [COMMAND]");
                                let only_help_shape = norm(m1) == norm(m2) || {
                                    // expanded help trees also add/remove usage lines of the help subcommand itself
                                    let l1: std::collections::BTreeSet<String> = norm(m1).lines().map(|l| l.to_string()).collect();
                                    let l2: std::collections::BTreeSet<String> = norm(m2).lines().map(|l| l.to_string()).collect();
                                    flatten && l1.symmetric_difference(&l2).all(|l| l.contains(" help ") || l.trim_end().ends_with(" help"))
                                };
                                let _ = flatten;
                                // second known shape: under no_binary_name the flattened usage lines carry
                                // the command name on a fresh value and drop it on a reused one
                                let strip = |s: &str| norm(s).lines().map(|l| l.trim_start().trim_start_matches("Usage: ").trim_start_matches("prog ").to_string()).collect::<Vec<_>>();
                                let only_prefix = spec.has(Setting::NoBinaryName) && {
                                    let (x, y) = (strip(m1), strip(m2));
                                    let f: Vec<&String> = x.iter().filter(|l| !y.contains(l)).collect();
                                    let r: Vec<&String> = y.iter().filter(|l| !x.contains(l)).collect();
                                    let related = |p: &str, q: &str| p.trim().ends_with(q.trim()) || q.trim().ends_with(p.trim());
                                    f.iter().all(|p| r.iter().any(|q| related(p, q)) || y.iter().any(|q| related(p, q)))
                                        && r.iter().all(|q| f.iter().any(|p| related(p, q)) || x.iter().any(|p| related(p, q)))
                                };
                                // third shape of the same family: multicall + flatten_help — the empty
                                // program name leaves one more blank in front of the flattened usage
                                // lines of a fresh value (the messages are equal modulo runs of blanks)
                                let only_indent = spec.has(Setting::Multicall) && flatten && {
                                    let t = |s: &str| norm(s).lines().map(|l| l.split_whitespace().collect::<Vec<_>>().join(" ")).collect::<Vec<_>>();
                                    t(m1) == t(m2)
                                };
                                let sig = if only_indent {
                                    format!("c11:{}:message-differs:multicall-flatten_help-usage-indent", name)
                                } else if only_help_shape {
                                    format!("c11:{}:message-differs:help-subcommand-usage-shape", name)
                                } else if only_prefix {
                                    format!("c11:{}:message-differs:no_binary_name-usage-prefix", name)
                                } else {
                                    format!("c11:{}:message-differs", name)
                                };
                                st.violation(sig, format!("first differing line: fresh {:?} vs {} {:?} | {}", a.get(i), name, b.get(i), ctx()));
                            }
                        }
                        (a, b) => {
                            let short = |o: &Outcome| match o {
                                Outcome::Ok(_) => "Ok".to_string(),
                                Outcome::Err(k, _) => format!("Err({})", k),
                                Outcome::Panic(l) => format!("Panic({})", l),
                            };
                            let helps = argv.iter().filter(|t| *t == "help").count();
                                let ie = {
                                    fn any(c: &CmdSpec) -> bool {
                                        c.has(Setting::IgnoreErrors) || c.subs.iter().any(any)
                                    }
                                    any(&spec)
                                };
                                let one_help = matches!((a, b), (Outcome::Ok(_), Outcome::Err(k, _)) | (Outcome::Err(k, _), Outcome::Ok(_)) if k == "DisplayHelp");
                                let sig = if helps >= 2 && ie && one_help && name != "reused" && name != "repeat" {
                                    // the InvalidSubcommand side of the known `help … help` divergence, swallowed by ignore_errors
                                    format!("c11:{}:error-kind-differs:help-of-help-path", name)
                                } else {
                                    format!("c11:{}:verdict-differs", name)
                                };
                                st.violation(sig, format!("fresh {} vs {} {} | {}", short(a), name, short(b), ctx()));
                        }
                    }
                };
                cmp("repeat", &rf2, &mf2, true, st);
                cmp("prebuilt", &rp, &mp, false, st);
                // a value on which `build()` was called explicitly is "explicitly built beforehand":
                // the property claims equal matches / error kind for it, not the identical message
                let explicitly_built = history.iter().any(|h| h == "build");
                if explicitly_built {
                    st.count("reused.explicitly-built");
                }
                cmp(if explicitly_built { "reused-built" } else { "reused" }, &rl, &ml, !explicitly_built, st);
                if history.len() > 1 {
                    st.count("reused.after-history");
                }
            }
        }
    }
}
