//! C12 — help and usage always render, list every visible item and nothing hidden; the help
//! flag yields the help of the level it was given at.

use crate::core::*;
use crate::gen::*;
use crate::spec::*;
use std::ffi::OsString;

/// rename everything displayed to unique alphanumeric markers (relations use ids, untouched)
fn mark(c: &mut CmdSpec, path: &str) {
    for (i, a) in c.args.iter_mut().enumerate() {
        let base = format!("m{}x{}", path, i);
        if let Some(orig) = &a.long {
            // the marker's length varies with the original name (rendered widths then vary too:
            // some generators align on fixed columns)
            let pad = (orig.len() * 5 + i * 3) % 13;
            a.long = Some(format!("{}lng{}", base, "q".repeat(pad)));
        }
        for (k, al) in a.aliases.iter_mut().enumerate() {
            al.0 = format!("{}al{}", base, k);
        }
        if a.takes_values() {
            let n = a.value_names.len().max(1);
            a.value_names = (0..n).map(|k| format!("{}VAL{}", base.to_uppercase(), k)).collect();
            if let Some(Vp::Possible(pvs)) = a.vp.as_mut() {
                for (k, p) in pvs.iter_mut().enumerate() {
                    p.name = format!("{}pv{}", base, k);
                    for (j, al) in p.aliases.iter_mut().enumerate() {
                        *al = format!("{}pv{}al{}", base, k, j);
                    }
                }
            }
        }
    }
    for (i, s) in c.subs.iter_mut().enumerate() {
        // the marker is the alphanumeric stem; the tail varies the name shape (hyphen, underscore)
        let tail = ["cmd", "cmd", "-cmd", "_cmd"][(i + path.len()) % 4];
        s.name = format!("m{}c{}{}", path, i, tail);
        for (k, al) in s.aliases.iter_mut().enumerate() {
            al.0 = format!("m{}c{}als{}", path, i, k);
        }
        if s.long_flag.is_some() {
            s.long_flag = Some(format!("m{}c{}lf", path, i));
        }
        for (k, al) in s.long_flag_aliases.iter_mut().enumerate() {
            al.0 = format!("m{}c{}lfa{}", path, i, k);
        }
        mark(s, &format!("{}c{}", path, i));
    }
}

pub fn mark_pub(c: &mut CmdSpec) {
    mark(c, "");
}

fn set_width(c: &mut CmdSpec, w: Option<usize>) {
    c.term_width = w;
    for s in c.subs.iter_mut() {
        set_width(s, w);
    }
}

fn shown(a: &ArgSpec, long: bool) -> bool {
    if a.hide {
        return false;
    }
    (!a.hide_long_help && long) || (!a.hide_short_help && !long) || a.next_line_help
}

fn total_text(c: &CmdSpec) -> usize {
    let mut n = 0;
    let o = |x: &Option<String>| x.as_ref().map(|s| s.len()).unwrap_or(0);
    n += o(&c.about) + o(&c.long_about) + o(&c.before_help) + o(&c.after_help) + o(&c.after_long_help) + o(&c.before_long_help) + o(&c.author) + c.name.len();
    for a in &c.args {
        n += o(&a.help) + o(&a.long_help) + o(&a.heading) + 64;
        n += a.defaults.iter().map(|d| d.len()).sum::<usize>();
    }
    for s in &c.subs {
        n += total_text(s);
    }
    n
}

/// Is `a` in the set the usage line of a rendering without parse results may name?  That set is
/// what clap's required graph unrolls to when no matches exist: required arguments and required
/// groups, closed under unconditional `requires` (a `requires_if` on a value, `required_if_eq*`
/// and `required_unless*` need parse results to fire, so they excuse nothing here).  Members of a
/// group in the set count as nameable (the group is written as `<a|b>`).
fn maybe_required(c: &CmdSpec, a: &ArgSpec) -> bool {
    let mut set: Vec<String> = c.args.iter().filter(|x| x.required).map(|x| x.id.clone()).collect();
    set.extend(c.groups.iter().filter(|g| g.required).map(|g| g.id.clone()));
    let mut i = 0;
    while i < set.len() {
        let id = set[i].clone();
        i += 1;
        let mut add: Vec<String> = vec![];
        if let Some(x) = c.arg(&id) {
            add.extend(x.requires.iter().cloned());
            add.extend(x.requires_ifs.iter().filter(|(p, _)| p.is_none()).map(|(_, r)| r.clone()));
            // an argument stands for the groups it is in
            for g in &c.groups {
                if g.members.contains(&id) {
                    add.extend(g.requires.iter().cloned());
                }
            }
        }
        if let Some(g) = c.group(&id) {
            add.extend(g.requires.iter().cloned());
            add.extend(g.members.iter().cloned());
        }
        for n in add {
            if !set.contains(&n) {
                set.push(n);
            }
        }
    }
    set.contains(&a.id)
}

fn check_text(st: &mut Stats, what: &str, out: &str, spec: &CmdSpec, ctx: &dyn Fn() -> String) -> bool {
    // unbounded padding
    let mut run = 0usize;
    let mut worst = 0usize;
    for ch in out.chars() {
        if ch == ' ' {
            run += 1;
            worst = worst.max(run);
        } else {
            run = 0;
        }
    }
    if worst > 400 {
        st.violation(format!("c12:unbounded-padding:{}", what), format!("a run of {} spaces | {}", worst, ctx()));
        return false;
    }
    let bound = 65536 + 6 * total_text(spec) * (1 + spec.count_nodes());
    if out.len() > bound {
        st.violation(format!("c12:output-too-large:{}", what), format!("{} bytes > {} | {}", out.len(), bound, ctx()));
        return false;
    }
    true
}

fn check_visibility(st: &mut Stats, c: &CmdSpec, help: &str, long: bool, hide_pv: bool, ctx: &dyn Fn() -> String) {
    let mode = if long { "long" } else { "short" };
    // a custom template chooses what is listed; what is hidden stays hidden under any template
    let custom = c.help_template.is_some();
    if custom {
        st.count("hidden.custom-template-pages");
    }
    for a in &c.args {
        if matches!(a.act(), Act::Help | Act::HelpShort | Act::HelpLong | Act::Version) {
            continue;
        }
        let marker: Option<String> = if let Some(l) = &a.long {
            Some(format!("--{}", l))
        } else if a.takes_values() {
            a.value_names.first().cloned()
        } else {
            None
        };
        if shown(a, long) && custom {
            // only the hidden possible values below
        } else if shown(a, long) {
            match &marker {
                Some(m) => {
                    st.count("visible.checked");
                    if !help.contains(m.as_str()) {
                        st.violation(format!("c12:visible-arg-missing:{}", mode), format!("{} ({}) not in {} help | {}", a.id, m, mode, ctx()));
                        return;
                    }
                }
                None => {
                    // short-only flag: a line starting with its switch
                    let pat = format!("  -{}", a.short.unwrap());
                    st.count("visible.checked-short-only");
                    if !help.lines().any(|l| l.starts_with(&pat)) {
                        st.violation(format!("c12:visible-arg-missing:{}", mode), format!("{} ({}) not in {} help | {}", a.id, pat.trim(), mode, ctx()));
                        return;
                    }
                }
            }
            if let (Some(Vp::Possible(pvs)), false, false) = (&a.vp, a.hide_possible_values, hide_pv || c.has(Setting::HidePossibleValues)) {
                for p in pvs {
                    if p.hide {
                        st.count("hidden.possible-value-checked");
                        if help.contains(p.name.as_str()) {
                            st.violation("c12:hidden-possible-value-shown", format!("{} of {} in {} help | {}", p.name, a.id, mode, ctx()));
                            return;
                        }
                    } else {
                        st.count("visible.possible-value-checked");
                        if !help.contains(p.name.as_str()) {
                            st.violation("c12:visible-possible-value-missing", format!("{} of {} not in {} help | {}", p.name, a.id, mode, ctx()));
                            return;
                        }
                    }
                }
            }
        } else if a.hide && (!maybe_required(c, a) || (!a.required && c.groups.iter().any(|g| g.required && g.members.contains(&a.id)) && !c.args.iter().any(|o| o.requires.contains(&a.id)))) {
            if let Some(m) = &marker {
                st.count("hidden.arg-checked");
                if help.contains(m.as_str()) {
                    let in_group = c.groups.iter().any(|g| g.required && g.members.contains(&a.id));
                    // a required group whose members are all hidden has to name them
                    let only_hidden = c.groups.iter().any(|g| g.members.contains(&a.id) && g.members.iter().all(|m| c.arg(m).map(|x| x.hide).unwrap_or(false)));
                    if only_hidden {
                        st.count("hidden.exempt-all-members-hidden");
                        continue;
                    }
                    let sig = if in_group { "c12:hidden-arg-shown:member-of-required-group" } else { "c12:hidden-arg-shown" };
                    let line = help.lines().find(|l| l.contains(m.as_str())).unwrap_or("");
                    st.violation(sig, format!("{} ({}) appears in {} help, line {:?} | {}", a.id, m, mode, line, ctx()));
                    return;
                }
            }
        }
        // hidden for this mode only (hide_short_help / hide_long_help): an option that no rule can make
        // required is not in the usage line either, so its long must not occur
        if !a.hide && !shown(a, long) && !a.is_positional() && !maybe_required(c, a) {
            if let Some(l) = &a.long {
                st.count("hidden.mode-hidden-option-checked");
                let m = format!("--{}", l);
                if help.contains(m.as_str()) {
                    let line = help.lines().find(|l| l.contains(m.as_str())).unwrap_or("");
                    st.violation(format!("c12:mode-hidden-arg-shown:{}", mode), format!("{} ({}) appears in {} help, line {:?} | {}", a.id, m, mode, line, ctx()));
                    return;
                }
            }
        }
        // hidden possible values of any argument never appear
        if let Some(Vp::Possible(pvs)) = &a.vp {
            for p in pvs.iter().filter(|p| p.hide) {
                if help.contains(p.name.as_str()) {
                    st.violation("c12:hidden-possible-value-shown", format!("{} of {} in {} help | {}", p.name, a.id, mode, ctx()));
                    return;
                }
            }
        }
    }
    let flatten = c.has(Setting::FlattenHelp);
    for s in &c.subs {
        if s.has(Setting::Hide) {
            st.count("hidden.subcommand-checked");
            if help.contains(s.name.as_str()) {
                st.violation("c12:hidden-subcommand-shown", format!("{} in {} help | {}", s.name, mode, ctx()));
                return;
            }
        } else if !flatten && !custom {
            st.count("visible.subcommand-checked");
            if !help.contains(s.name.as_str()) {
                st.violation(format!("c12:visible-subcommand-missing:{}", mode), format!("{} not in {} help | {}", s.name, mode, ctx()));
                return;
            }
        }
    }
}

fn check_usage_hidden(st: &mut Stats, c: &CmdSpec, usage: &str, ctx: &dyn Fn() -> String) {
    for a in &c.args {
        if a.hide && !maybe_required(c, a) {
            let marker: Option<String> = if let Some(l) = &a.long { Some(format!("--{}", l)) } else if a.takes_values() { a.value_names.first().cloned() } else { None };
            if let Some(m) = marker {
                if usage.contains(m.as_str()) {
                    let only_hidden = c.groups.iter().any(|g| g.members.contains(&a.id) && g.members.iter().all(|m| c.arg(m).map(|x| x.hide).unwrap_or(false)));
                    if only_hidden {
                        continue;
                    }
                    let in_group = c.groups.iter().any(|g| g.required && g.members.contains(&a.id));
                    let sig = if in_group { "c12:hidden-arg-shown:member-of-required-group" } else { "c12:hidden-arg-in-usage" };
                    st.violation(sig, format!("{} ({}) appears in usage {:?} | {}", a.id, m, usage, ctx()));
                    return;
                }
            }
        }
    }
    for s in &c.subs {
        if s.has(Setting::Hide) && usage.contains(s.name.as_str()) {
            st.violation("c12:hidden-subcommand-shown", format!("{} in usage {:?} | {}", s.name, usage, ctx()));
            return;
        }
    }
}

pub fn case(seed: u64, st: &mut Stats) {
    let mut rng = Rng::new(seed);
    let o = WildOpts { max_args: 6, max_groups: 2, max_subs: 3, depth: 2, texts: true, hostile_text: rng.chance(1, 3), env: false, ..Default::default() };
    let mut spec = wild(&mut rng, &o);
    // section-composition stratum: sparse sections
    if rng.chance(1, 3) {
        spec.set(Setting::DisableHelpFlag);
        spec.set(Setting::DisableVersionFlag);
        spec.args.truncate(rng.range(0, 2));
        // down to the degenerate page: a single subcommand (no generated `help` next to it), or
        // nothing visible at all
        if rng.coin() {
            spec.set(Setting::DisableHelpSubcommand);
            spec.subs.truncate(rng.range(0, 2));
            if rng.coin() {
                for a in spec.args.iter_mut() {
                    a.hide = true;
                }
            }
            st.count("stratum.sparse-sections.no-help-subcommand");
        }
        st.count("stratum.sparse-sections");
    }
    if rng.chance(1, 8) {
        spec.help_template = Some(rng.pick(&["{before-help}{name} {version}\n{author-with-newline}{about-with-newline}\n{usage-heading} {usage}\n\n{all-args}{after-help}", "{bin} {usage} {options} {positionals} {subcommands} {tab}", "{all-args}", "x{unknown}y {about-section}"]).to_string());
    }
    spec.settings.retain(|s| !matches!(s, Setting::Multicall | Setting::NoBinaryName));
    mark(&mut spec, "");
    let w = match rng.below(7) {
        0 => None,
        1 => Some(rng.below(12)),
        // far end of "any terminal width"
        6 => Some(*rng.pick(&[201usize, 255, 256, 1000, 65535, 65536, 1 << 32, usize::MAX / 2, usize::MAX - 1, usize::MAX])),
        _ => Some(rng.below(201)),
    };
    if w.is_some_and(|w| w > 200) {
        st.count("width.beyond-200");
    }
    set_width(&mut spec, w);
    let cmd = match gate(&spec) {
        Ok(c) => c,
        Err(_) => {
            st.count("gate.rejected");
            return;
        }
    };
    st.count("gate.accepted");
    st.accepted_seeds.push(st.case_seed);
    st.nontrivial(hash_str(&format!("{:?}", spec)));
    let ctx = || format!("width={:?} | spec={}", w, brief(&spec));
    st.sample(|| format!("tree with {} nodes, width {:?}", spec.count_nodes(), w));
    // root renders
    let mut built = cmd.clone();
    for (what, long) in [("render_help", false), ("render_long_help", true)] {
        st.eval();
        let r = catch(|| if long { built.render_long_help().to_string() } else { built.render_help().to_string() });
        match r {
            Err(p) => {
                st.violation(format!("panic:{}@{}", what, p.loc), format!("{} | {}", p.msg, ctx()));
                return;
            }
            Ok(out) => {
                st.count("render.ok");
                if check_text(st, what, &out, &spec, &ctx) {
                    check_visibility(st, &spec, &out, long, false, &ctx);
                }
            }
        }
    }
    st.eval();
    match catch(|| built.render_usage().to_string()) {
        Err(p) => st.violation(format!("panic:render_usage@{}", p.loc), format!("{} | {}", p.msg, ctx())),
        Ok(u) => {
            st.count("render.ok");
            check_text(st, "render_usage", &u, &spec, &ctx);
            check_usage_hidden(st, &spec, &u, &ctx);
        }
    }
    // help requested at every level through the parser
    fn walk(st: &mut Stats, rng: &mut Rng, root: &CmdSpec, cmd: &clap::Command, c: &CmdSpec, path: &mut Vec<String>, hide_pv: bool, ctx: &dyn Fn() -> String) {
        let forms: Vec<(&str, bool)> = vec![("-h", false), ("--help", true)];
        for (flag, long) in forms {
            if c.has(Setting::DisableHelpFlag) {
                continue;
            }
            // under ignore_errors a help request inside a subcommand is swallowed by the parent
            // (documented consequence of partial parsing): not a help execution to judge
            {
                fn on_path(root: &CmdSpec, path: &[String]) -> bool {
                    let mut c = root;
                    if c.has(Setting::IgnoreErrors) {
                        return true;
                    }
                    for p in path {
                        match c.sub(p) {
                            Some(s) => {
                                c = s;
                                if c.has(Setting::IgnoreErrors) {
                                    return true;
                                }
                            }
                            None => return false,
                        }
                    }
                    false
                }
                if !path.is_empty() && on_path(root, path) {
                    st.count("helpflag.skipped-ignore-errors");
                    continue;
                }
            }
            // an explicit arg may own -h / --help; then it is not the help flag
            let mut argv: Vec<OsString> = vec!["prog".into()];
            argv.extend(path.iter().map(|p| OsString::from(p)));
            argv.push(flag.into());
            st.eval();
            match catch(|| cmd.clone().try_get_matches_from(argv.clone())) {
                Err(p) => {
                    st.violation(format!("panic:help-flag@{}", p.loc), format!("{} | argv={} | {}", p.msg, show_argv(&argv), ctx()));
                    return;
                }
                Ok(Err(e)) if e.kind() == clap::error::ErrorKind::DisplayHelp => {
                    let out = match catch(|| e.render().to_string()) {
                        Ok(o) => o,
                        Err(p) => {
                            st.violation(format!("panic:help-render@{}", p.loc), format!("{} | argv={} | {}", p.msg, show_argv(&argv), ctx()));
                            return;
                        }
                    };
                    st.count("helpflag.rendered");
                    let c2 = || format!("argv={} | {}", show_argv(&argv), ctx());
                    if check_text(st, "help-flag", &out, root, &c2) {
                        check_visibility(st, c, &out, long, hide_pv, &c2);
                        // the usage line names the path with the parents' required arguments: nothing
                        // hidden and optional from a level above may come along
                        let mut anc = root;
                        for p in path.iter() {
                            for a in anc.args.iter().filter(|a| a.hide && !a.global && !maybe_required(anc, a)) {
                                let marker: Option<String> = if let Some(l) = &a.long { Some(format!("--{}", l)) } else if a.takes_values() { a.value_names.first().cloned() } else { None };
                                if let Some(m) = marker {
                                    st.count("hidden.arg-of-a-level-above-checked");
                                    if out.contains(m.as_str()) {
                                        let line = out.lines().find(|l| l.contains(m.as_str())).unwrap_or("");
                                        st.violation("c12:hidden-arg-of-a-level-above-shown", format!("{} ({}) of {:?} appears in the help of {:?}, line {:?} | {}", a.id, m, anc.name, path, line, c2()));
                                        return;
                                    }
                                }
                            }
                            match anc.sub(p) {
                                Some(s) => anc = s,
                                None => break,
                            }
                        }
                        // level: the usage names this level's path, and no non-global argument of an ancestor is listed
                        if c.help_template.is_none() && c.override_usage.is_none() && !path.is_empty() {
                            st.count("helpflag.level-checked");
                            let last = path.last().unwrap();
                            let usage_line = out.lines().find(|l| l.contains("Usage:")).unwrap_or("");
                            if !usage_line.contains(last.as_str()) {
                                st.violation("c12:help-of-wrong-level", format!("usage line {:?} does not name {:?} | {}", usage_line, last, c2()));
                            }
                        }
                    }
                }
                Ok(_) => st.count("helpflag.not-help"), // required args of a parent, custom -h, …: not judged
            }
        }
        if path.len() < 2 {
            for s in &c.subs {
                // the path must be enterable: parents without required args only (else parse stops there)
                path.push(s.name.clone());
                walk(st, rng, root, cmd, s, path, hide_pv || c.has(Setting::HidePossibleValues), ctx);
                path.pop();
            }
        }
    }
    let mut path = vec![];
    walk(st, &mut rng, &spec, &cmd, &spec, &mut path, false, &ctx);
    // `help` subcommand
    if !spec.subs.is_empty() && !spec.has(Setting::DisableHelpSubcommand) {
        let s = &spec.subs[rng.below(spec.subs.len())];
        let argv: Vec<OsString> = vec!["prog".into(), "help".into(), s.name.clone().into()];
        st.eval();
        match catch(|| cmd.clone().try_get_matches_from(argv.clone())) {
            Err(p) => st.violation(format!("panic:help-subcommand@{}", p.loc), format!("{} | argv={} | {}", p.msg, show_argv(&argv), ctx())),
            Ok(Err(e)) => {
                if let Err(p) = catch(|| e.render().to_string()) {
                    st.violation(format!("panic:help-render@{}", p.loc), format!("{} | argv={} | {}", p.msg, show_argv(&argv), ctx()));
                }
                st.count("helpsub.rendered");
            }
            Ok(Ok(_)) => {}
        }
    }
    // the generated `help` subcommand of an explicitly built command carries a copy of the
    // subcommand tree: its own help (`prog help help`, or rendered from the definition) must not
    // list what is hidden either
    if !spec.subs.is_empty() && !spec.has(Setting::DisableHelpSubcommand) && !spec.subs.iter().any(|s| s.name == "help") && rng.chance(1, 2) {
        let hidden: Vec<&CmdSpec> = spec.subs.iter().filter(|s| s.has(Setting::Hide)).collect();
        let mut texts: Vec<(String, String)> = vec![];
        let r = catch(|| {
            let mut b2 = cmd.clone();
            b2.build();
            let mut out = vec![];
            if let Err(e) = b2.try_get_matches_from_mut(["prog", "help", "help"]) {
                out.push(("prog help help".to_string(), e.render().to_string()));
            }
            if let Some(h) = b2.find_subcommand_mut("help") {
                out.push(("help.render_help".to_string(), h.render_help().to_string()));
                out.push(("help.render_long_help".to_string(), h.render_long_help().to_string()));
            }
            out
        });
        st.eval();
        match r {
            Err(p) => st.violation(format!("panic:help-of-help@{}", p.loc), format!("{} | {}", p.msg, ctx())),
            Ok(o) => texts = o,
        }
        for (what, text) in &texts {
            st.count("helpsub.own-help-rendered");
            for h in &hidden {
                st.count("hidden.subcommand-checked-in-help-of-help");
                if text.contains(h.name.as_str()) {
                    st.violation("c12:hidden-subcommand-shown:help-of-help", format!("{} in {} | {}", h.name, what, ctx()));
                    break;
                }
            }
        }
    }
    // width sweep (thorough: all widths; quick: a few) for totality
    let widths: Vec<usize> = if st.tier_thorough && rng.chance(1, 10) { (0..=200).collect() } else { (0..4).map(|_| rng.below(201)).collect() };
    for w2 in widths {
        let mut s2 = spec.clone();
        set_width(&mut s2, Some(w2));
        let Ok(mut c2) = catch(|| build(&s2)) else { continue };
        st.eval();
        let r = catch(|| (c2.render_help().to_string(), c2.render_long_help().to_string()));
        match r {
            Err(p) => {
                st.violation(format!("panic:render_help@{}", p.loc), format!("{} | width {} | {}", p.msg, w2, ctx()));
                break;
            }
            Ok((a, b)) => {
                st.count("render.width-sweep");
                let c3 = || format!("width {} | {}", w2, ctx());
                check_text(st, "render_help", &a, &spec, &c3);
                check_text(st, "render_long_help", &b, &spec, &c3);
            }
        }
    }
}
