//! Plain-data command specification and the single place that touches clap's builder API.

use clap::builder::{ArgPredicate, PossibleValue, ValueRange};
use clap::{Arg, ArgAction, ArgGroup, Command};

#[derive(Clone, Debug, Hash, PartialEq, Eq)]
pub enum Act {
    Set,
    Append,
    SetTrue,
    SetFalse,
    Count,
    Help,
    HelpShort,
    HelpLong,
    Version,
}

impl Act {
    pub fn takes_values(&self) -> bool {
        matches!(self, Act::Set | Act::Append)
    }
    pub fn is_flag(&self) -> bool {
        matches!(self, Act::SetTrue | Act::SetFalse | Act::Count)
    }
}

#[derive(Clone, Debug, Hash, PartialEq, Eq)]
pub struct Pv {
    pub name: String,
    pub aliases: Vec<String>,
    pub hide: bool,
    pub help: Option<String>,
}

#[derive(Clone, Debug, Hash, PartialEq, Eq)]
pub enum Vp {
    /// default: String
    Str,
    Os,
    Path,
    Bool,
    Boolish,
    Falsey,
    NonEmpty,
    Possible(Vec<Pv>),
    I64(i64, i64),
    U64(u64, u64),
    U8(i64, i64),
    I8(i64, i64),
    U16(i64, i64),
    I32(i64, i64),
}

#[derive(Clone, Debug, Hash, PartialEq, Eq, Default)]
pub struct ArgSpec {
    pub id: String,
    pub short: Option<char>,
    pub long: Option<String>,
    pub aliases: Vec<(String, bool)>,
    pub short_aliases: Vec<(char, bool)>,
    pub action: Option<Act>,
    /// Some(i) => positional with explicit index i (1-based); positional iff short and long are None
    pub index: Option<usize>,
    /// (min, max); max == usize::MAX means unbounded
    pub num_args: Option<(usize, usize)>,
    pub delim: Option<char>,
    pub terminator: Option<String>,
    pub require_equals: bool,
    pub allow_hyphen: bool,
    pub allow_negative: bool,
    pub last: bool,
    pub trailing_var_arg: bool,
    pub defaults: Vec<String>,
    pub default_missing: Vec<String>,
    /// (other arg id, Some(eq) | None=present, Some(default) | None=unset)
    pub default_ifs: Vec<(String, Option<String>, Option<String>)>,
    /// variable name (value is set in the process environment by the monitor before build)
    pub env: Option<String>,
    pub vp: Option<Vp>,
    pub ignore_case: bool,
    pub required: bool,
    pub exclusive: bool,
    pub global: bool,
    pub hide: bool,
    pub hide_short_help: bool,
    pub hide_long_help: bool,
    pub hide_possible_values: bool,
    pub hide_default_value: bool,
    pub hide_env: bool,
    pub hide_env_values: bool,
    pub next_line_help: bool,
    pub help: Option<String>,
    pub long_help: Option<String>,
    pub heading: Option<String>,
    pub display_order: Option<usize>,
    pub value_names: Vec<String>,
    pub hint: Option<u8>,
    pub conflicts: Vec<String>,
    pub requires: Vec<String>,
    /// (value or None for present, required id)
    pub requires_ifs: Vec<(Option<String>, String)>,
    pub overrides: Vec<String>,
    pub required_unless_any: Vec<String>,
    pub required_unless_all: Vec<String>,
    pub required_if_eq_any: Vec<(String, String)>,
    pub required_if_eq_all: Vec<(String, String)>,
}

impl ArgSpec {
    pub fn is_positional(&self) -> bool {
        self.short.is_none() && self.long.is_none()
    }
    pub fn act(&self) -> Act {
        self.action.clone().unwrap_or(Act::Set)
    }
    pub fn takes_values(&self) -> bool {
        self.act().takes_values()
    }
    /// effective num_args as clap computes it in `Arg::_build`
    pub fn eff_num_args(&self) -> (usize, usize) {
        if let Some(r) = self.num_args {
            return r;
        }
        if !self.takes_values() {
            return (0, 0);
        }
        let n = self.value_names.len();
        if n > 1 {
            (n, n)
        } else {
            (1, 1)
        }
    }
    pub fn is_multi(&self) -> bool {
        self.eff_num_args().1 > 1
    }
}

#[derive(Clone, Debug, Hash, PartialEq, Eq, Default)]
pub struct GroupSpec {
    pub id: String,
    pub members: Vec<String>,
    pub required: bool,
    pub multiple: bool,
    pub conflicts: Vec<String>,
    pub requires: Vec<String>,
}

#[derive(Clone, Copy, Debug, Hash, PartialEq, Eq, PartialOrd, Ord)]
pub enum Setting {
    ArgsConflictsWithSubcommands,
    SubcommandNegatesReqs,
    SubcommandRequired,
    ArgRequiredElseHelp,
    AllowExternalSubcommands,
    AllowMissingPositional,
    InferLongArgs,
    InferSubcommands,
    IgnoreErrors,
    NoBinaryName,
    Multicall,
    SubcommandPrecedenceOverArg,
    FlattenHelp,
    DisableHelpFlag,
    DisableHelpSubcommand,
    DisableVersionFlag,
    PropagateVersion,
    ArgsOverrideSelf,
    DontDelimitTrailingValues,
    NextLineHelp,
    HidePossibleValues,
    DontCollapseArgsInUsage,
    DisableColoredHelp,
    Hide,
}

pub const ALL_SETTINGS: &[Setting] = &[
    Setting::ArgsConflictsWithSubcommands,
    Setting::SubcommandNegatesReqs,
    Setting::SubcommandRequired,
    Setting::ArgRequiredElseHelp,
    Setting::AllowExternalSubcommands,
    Setting::AllowMissingPositional,
    Setting::InferLongArgs,
    Setting::InferSubcommands,
    Setting::IgnoreErrors,
    Setting::NoBinaryName,
    Setting::Multicall,
    Setting::SubcommandPrecedenceOverArg,
    Setting::FlattenHelp,
    Setting::DisableHelpFlag,
    Setting::DisableHelpSubcommand,
    Setting::DisableVersionFlag,
    Setting::PropagateVersion,
    Setting::ArgsOverrideSelf,
    Setting::DontDelimitTrailingValues,
    Setting::NextLineHelp,
    Setting::HidePossibleValues,
    Setting::DontCollapseArgsInUsage,
    Setting::DisableColoredHelp,
    Setting::Hide,
];

#[derive(Clone, Debug, Hash, PartialEq, Eq, Default)]
pub struct CmdSpec {
    pub name: String,
    pub aliases: Vec<(String, bool)>,
    pub short_flag: Option<char>,
    pub long_flag: Option<String>,
    pub short_flag_aliases: Vec<(char, bool)>,
    pub long_flag_aliases: Vec<(String, bool)>,
    pub about: Option<String>,
    pub long_about: Option<String>,
    pub before_help: Option<String>,
    pub before_long_help: Option<String>,
    pub after_help: Option<String>,
    pub after_long_help: Option<String>,
    pub version: Option<String>,
    pub long_version: Option<String>,
    pub author: Option<String>,
    pub settings: Vec<Setting>,
    pub args: Vec<ArgSpec>,
    pub groups: Vec<GroupSpec>,
    pub subs: Vec<CmdSpec>,
    pub term_width: Option<usize>,
    pub max_term_width: Option<usize>,
    pub help_template: Option<String>,
    pub next_help_heading: Option<String>,
    pub subcommand_help_heading: Option<String>,
    pub subcommand_value_name: Option<String>,
    pub display_name: Option<String>,
    pub bin_name: Option<String>,
    pub override_usage: Option<String>,
    pub display_order: Option<usize>,
    /// external subcommand value parser: false = OsString (default), true = String
    pub external_string: bool,
    /// settings in effect here because a level above declared them (clap propagates its "global"
    /// settings to every subcommand below); read by `has`, never passed to the builder
    pub inherited: Vec<Setting>,
}

impl CmdSpec {
    /// record at every level the propagating settings declared above it
    pub fn push_down(&mut self, which: &[Setting]) {
        let here: Vec<Setting> = which.iter().copied().filter(|s| self.has(*s)).collect();
        for sub in self.subs.iter_mut() {
            for s in &here {
                if !sub.has(*s) {
                    sub.inherited.push(*s);
                }
            }
            sub.push_down(which);
        }
    }
    pub fn has(&self, s: Setting) -> bool {
        self.settings.contains(&s) || self.inherited.contains(&s)
    }
    pub fn set(&mut self, s: Setting) {
        if !self.has(s) {
            self.settings.push(s);
        }
    }
    pub fn arg(&self, id: &str) -> Option<&ArgSpec> {
        self.args.iter().find(|a| a.id == id)
    }
    pub fn group(&self, id: &str) -> Option<&GroupSpec> {
        self.groups.iter().find(|g| g.id == id)
    }
    pub fn positionals(&self) -> Vec<&ArgSpec> {
        self.args.iter().filter(|a| a.is_positional()).collect()
    }
    pub fn sub(&self, name: &str) -> Option<&CmdSpec> {
        self.subs.iter().find(|s| s.name == name)
    }
    pub fn count_nodes(&self) -> usize {
        1 + self.subs.iter().map(|s| s.count_nodes()).sum::<usize>()
    }
}

fn range(min: usize, max: usize) -> ValueRange {
    if max == usize::MAX {
        (min..).into()
    } else {
        (min..=max).into()
    }
}

pub fn build_arg(a: &ArgSpec) -> Arg {
    let mut x = Arg::new(a.id.clone());
    if let Some(c) = a.short {
        x = x.short(c);
    }
    if let Some(l) = &a.long {
        x = x.long(l.clone());
    }
    for (al, vis) in &a.aliases {
        x = if *vis {
            x.visible_alias(al.clone())
        } else {
            x.alias(al.clone())
        };
    }
    for (al, vis) in &a.short_aliases {
        x = if *vis {
            x.visible_short_alias(*al)
        } else {
            x.short_alias(*al)
        };
    }
    if let Some(act) = &a.action {
        x = x.action(match act {
            Act::Set => ArgAction::Set,
            Act::Append => ArgAction::Append,
            Act::SetTrue => ArgAction::SetTrue,
            Act::SetFalse => ArgAction::SetFalse,
            Act::Count => ArgAction::Count,
            Act::Help => ArgAction::Help,
            Act::HelpShort => ArgAction::HelpShort,
            Act::HelpLong => ArgAction::HelpLong,
            Act::Version => ArgAction::Version,
        });
    }
    if let Some(i) = a.index {
        x = x.index(i);
    }
    if let Some((lo, hi)) = a.num_args {
        x = x.num_args(range(lo, hi));
    }
    if let Some(d) = a.delim {
        x = x.value_delimiter(d);
    }
    if let Some(t) = &a.terminator {
        x = x.value_terminator(t.clone());
    }
    if a.require_equals {
        x = x.require_equals(true);
    }
    if a.allow_hyphen {
        x = x.allow_hyphen_values(true);
    }
    if a.allow_negative {
        x = x.allow_negative_numbers(true);
    }
    if a.last {
        x = x.last(true);
    }
    if a.trailing_var_arg {
        x = x.trailing_var_arg(true);
    }
    if !a.defaults.is_empty() {
        x = x.default_values(a.defaults.clone());
    }
    if !a.default_missing.is_empty() {
        x = x.default_missing_values(a.default_missing.clone());
    }
    for (other, eq, def) in &a.default_ifs {
        let pred = match eq {
            Some(v) => ArgPredicate::Equals(v.clone().into()),
            None => ArgPredicate::IsPresent,
        };
        x = match def {
            Some(d) => x.default_value_if(other.clone(), pred, d.clone()),
            None => x.default_value_if(other.clone(), pred, clap::builder::Resettable::Reset),
        };
    }
    if let Some(v) = &a.env {
        x = x.env(v.clone());
    }
    if let Some(vp) = &a.vp {
        x = match vp {
            Vp::Str => x.value_parser(clap::value_parser!(String)),
            Vp::Os => x.value_parser(clap::value_parser!(std::ffi::OsString)),
            Vp::Path => x.value_parser(clap::value_parser!(std::path::PathBuf)),
            Vp::Bool => x.value_parser(clap::value_parser!(bool)),
            Vp::Boolish => x.value_parser(clap::builder::BoolishValueParser::new()),
            Vp::Falsey => x.value_parser(clap::builder::FalseyValueParser::new()),
            Vp::NonEmpty => x.value_parser(clap::builder::NonEmptyStringValueParser::new()),
            Vp::Possible(pvs) => x.value_parser(
                pvs.iter()
                    .map(|p| {
                        let mut v = PossibleValue::new(p.name.clone());
                        for al in &p.aliases {
                            v = v.alias(al.clone());
                        }
                        if p.hide {
                            v = v.hide(true);
                        }
                        if let Some(h) = &p.help {
                            v = v.help(h.clone());
                        }
                        v
                    })
                    .collect::<Vec<_>>(),
            ),
            Vp::I64(lo, hi) => x.value_parser(clap::value_parser!(i64).range(*lo..=*hi)),
            Vp::U64(lo, hi) => x.value_parser(clap::value_parser!(u64).range(*lo..=*hi)),
            Vp::U8(lo, hi) => x.value_parser(clap::value_parser!(u8).range(*lo..=*hi)),
            Vp::I8(lo, hi) => x.value_parser(clap::value_parser!(i8).range(*lo..=*hi)),
            Vp::U16(lo, hi) => x.value_parser(clap::value_parser!(u16).range(*lo..=*hi)),
            Vp::I32(lo, hi) => x.value_parser(clap::value_parser!(i32).range(*lo..=*hi)),
        };
    }
    if a.ignore_case {
        x = x.ignore_case(true);
    }
    if a.required {
        x = x.required(true);
    }
    if a.exclusive {
        x = x.exclusive(true);
    }
    if a.global {
        x = x.global(true);
    }
    if a.hide {
        x = x.hide(true);
    }
    if a.hide_short_help {
        x = x.hide_short_help(true);
    }
    if a.hide_long_help {
        x = x.hide_long_help(true);
    }
    if a.hide_possible_values {
        x = x.hide_possible_values(true);
    }
    if a.hide_default_value {
        x = x.hide_default_value(true);
    }
    if a.hide_env {
        x = x.hide_env(true);
    }
    if a.hide_env_values {
        x = x.hide_env_values(true);
    }
    if a.next_line_help {
        x = x.next_line_help(true);
    }
    if let Some(h) = &a.help {
        x = x.help(h.clone());
    }
    if let Some(h) = &a.long_help {
        x = x.long_help(h.clone());
    }
    if let Some(h) = &a.heading {
        x = x.help_heading(h.clone());
    }
    if let Some(o) = a.display_order {
        x = x.display_order(o);
    }
    if !a.value_names.is_empty() {
        x = x.value_names(a.value_names.clone());
    }
    if let Some(h) = a.hint {
        use clap::ValueHint as H;
        x = x.value_hint(match h % 13 {
            0 => H::Unknown,
            1 => H::Other,
            2 => H::AnyPath,
            3 => H::FilePath,
            4 => H::DirPath,
            5 => H::ExecutablePath,
            6 => H::CommandName,
            7 => H::CommandString,
            8 => H::Username,
            9 => H::Hostname,
            10 => H::Url,
            11 => H::EmailAddress,
            _ => H::CommandWithArguments,
        });
    }
    for c in &a.conflicts {
        x = x.conflicts_with(c.clone());
    }
    for c in &a.requires {
        x = x.requires(c.clone());
    }
    for (v, r) in &a.requires_ifs {
        let pred = match v {
            Some(v) => ArgPredicate::Equals(v.clone().into()),
            None => ArgPredicate::IsPresent,
        };
        x = x.requires_if(pred, r.clone());
    }
    // equivalent builder calls, chosen from the definition itself: one call per relation, or the
    // first by overrides_with and the rest by overrides_with_all (both extend the list)
    if a.overrides.len() >= 2 && (a.overrides.len() + a.id.bytes().last().unwrap_or(0) as usize) % 2 == 0 {
        x = x.overrides_with(a.overrides[0].clone());
        x = x.overrides_with_all(a.overrides[1..].to_vec());
    } else {
        for c in &a.overrides {
            x = x.overrides_with(c.clone());
        }
    }
    if !a.required_unless_any.is_empty() {
        x = x.required_unless_present_any(a.required_unless_any.clone());
    }
    if !a.required_unless_all.is_empty() {
        x = x.required_unless_present_all(a.required_unless_all.clone());
    }
    if !a.required_if_eq_any.is_empty() {
        x = x.required_if_eq_any(a.required_if_eq_any.clone());
    }
    if !a.required_if_eq_all.is_empty() {
        x = x.required_if_eq_all(a.required_if_eq_all.clone());
    }
    x
}

pub fn build(c: &CmdSpec) -> Command {
    let mut x = Command::new(c.name.clone());
    for (al, vis) in &c.aliases {
        x = if *vis {
            x.visible_alias(al.clone())
        } else {
            x.alias(al.clone())
        };
    }
    if let Some(f) = c.short_flag {
        x = x.short_flag(f);
    }
    if let Some(f) = &c.long_flag {
        x = x.long_flag(f.clone());
    }
    for (al, vis) in &c.short_flag_aliases {
        x = if *vis {
            x.visible_short_flag_alias(*al)
        } else {
            x.short_flag_alias(*al)
        };
    }
    for (al, vis) in &c.long_flag_aliases {
        x = if *vis {
            x.visible_long_flag_alias(al.clone())
        } else {
            x.long_flag_alias(al.clone())
        };
    }
    if let Some(t) = &c.about {
        x = x.about(t.clone());
    }
    if let Some(t) = &c.long_about {
        x = x.long_about(t.clone());
    }
    if let Some(t) = &c.before_help {
        x = x.before_help(t.clone());
    }
    if let Some(t) = &c.before_long_help {
        x = x.before_long_help(t.clone());
    }
    if let Some(t) = &c.after_help {
        x = x.after_help(t.clone());
    }
    if let Some(t) = &c.after_long_help {
        x = x.after_long_help(t.clone());
    }
    if let Some(t) = &c.version {
        x = x.version(t.clone());
    }
    if let Some(t) = &c.long_version {
        x = x.long_version(t.clone());
    }
    if let Some(t) = &c.author {
        x = x.author(t.clone());
    }
    for s in &c.settings {
        x = match s {
            Setting::ArgsConflictsWithSubcommands => x.args_conflicts_with_subcommands(true),
            Setting::SubcommandNegatesReqs => x.subcommand_negates_reqs(true),
            Setting::SubcommandRequired => x.subcommand_required(true),
            Setting::ArgRequiredElseHelp => x.arg_required_else_help(true),
            Setting::AllowExternalSubcommands => x.allow_external_subcommands(true),
            Setting::AllowMissingPositional => x.allow_missing_positional(true),
            Setting::InferLongArgs => x.infer_long_args(true),
            Setting::InferSubcommands => x.infer_subcommands(true),
            Setting::IgnoreErrors => x.ignore_errors(true),
            Setting::NoBinaryName => x.no_binary_name(true),
            Setting::Multicall => x.multicall(true),
            Setting::SubcommandPrecedenceOverArg => x.subcommand_precedence_over_arg(true),
            Setting::FlattenHelp => x.flatten_help(true),
            Setting::DisableHelpFlag => x.disable_help_flag(true),
            Setting::DisableHelpSubcommand => x.disable_help_subcommand(true),
            Setting::DisableVersionFlag => x.disable_version_flag(true),
            Setting::PropagateVersion => x.propagate_version(true),
            Setting::ArgsOverrideSelf => x.args_override_self(true),
            Setting::DontDelimitTrailingValues => x.dont_delimit_trailing_values(true),
            Setting::NextLineHelp => x.next_line_help(true),
            Setting::HidePossibleValues => x.hide_possible_values(true),
            Setting::DontCollapseArgsInUsage => x.dont_collapse_args_in_usage(true),
            Setting::DisableColoredHelp => x.disable_colored_help(true),
            Setting::Hide => x.hide(true),
        };
    }
    if c.external_string {
        x = x.external_subcommand_value_parser(clap::value_parser!(String));
    }
    if let Some(w) = c.term_width {
        x = x.term_width(w);
    }
    if let Some(w) = c.max_term_width {
        x = x.max_term_width(w);
    }
    if let Some(t) = &c.help_template {
        x = x.help_template(t.clone());
    }
    if let Some(t) = &c.next_help_heading {
        x = x.next_help_heading(t.clone());
    }
    if let Some(t) = &c.subcommand_help_heading {
        x = x.subcommand_help_heading(t.clone());
    }
    if let Some(t) = &c.subcommand_value_name {
        x = x.subcommand_value_name(t.clone());
    }
    if let Some(t) = &c.display_name {
        x = x.display_name(t.clone());
    }
    if let Some(t) = &c.bin_name {
        x = x.bin_name(t.clone());
    }
    if let Some(t) = &c.override_usage {
        x = x.override_usage(t.clone());
    }
    if let Some(o) = c.display_order {
        x = x.display_order(o);
    }
    for a in &c.args {
        x = x.arg(build_arg(a));
    }
    for g in &c.groups {
        let mut gg = ArgGroup::new(g.id.clone())
            .args(g.members.clone())
            .required(g.required)
            .multiple(g.multiple);
        for c in &g.conflicts {
            gg = gg.conflicts_with(c.clone());
        }
        for c in &g.requires {
            gg = gg.requires(c.clone());
        }
        x = x.group(gg);
    }
    for s in &c.subs {
        x = x.subcommand(build(s));
    }
    // an equivalent way of building: touch one option through mut_arg (identity closure). Only a
    // non-positional argument: mut_arg re-appends the argument, which renumbers implicit positionals.
    let touch = c.args.iter().filter(|a| !a.is_positional()).count();
    if touch > 0 && (c.args.len() + c.subs.len()) % 3 == 0 {
        if let Some(a) = c.args.iter().find(|a| !a.is_positional()) {
            // (explicit display orders are kept; the implicit one of the touched argument is taken again)
            x = x.mut_arg(a.id.clone(), |arg| arg);
        }
    }
    x
}

/// The validity gate: clap's own configuration checks (debug assertions) decide.
/// Returns the panic message of the rejection when rejected.
pub fn gate(c: &CmdSpec) -> Result<Command, crate::core::Panic> {
    crate::core::catch(|| {
        let cmd = build(c);
        let mut probe = cmd.clone();
        probe.build();
        cmd
    })
}

// ---------------------------------------------------------------- compact rendering for reports

pub fn brief_arg(a: &ArgSpec) -> String {
    let mut s = format!("{}", a.id);
    if let Some(c) = a.short {
        s.push_str(&format!(" -{}", c));
    }
    if let Some(l) = &a.long {
        s.push_str(&format!(" --{}", l));
    }
    if !a.aliases.is_empty() {
        s.push_str(&format!(" aliases{:?}", a.aliases));
    }
    if !a.short_aliases.is_empty() {
        s.push_str(&format!(" short_aliases{:?}", a.short_aliases));
    }
    if let Some(act) = &a.action {
        s.push_str(&format!(" {:?}", act));
    }
    if let Some(i) = a.index {
        s.push_str(&format!(" index={}", i));
    }
    if let Some((lo, hi)) = a.num_args {
        if hi == usize::MAX {
            s.push_str(&format!(" num_args={}..", lo));
        } else {
            s.push_str(&format!(" num_args={}..={}", lo, hi));
        }
    }
    macro_rules! opt {
        ($f:ident) => {
            if let Some(v) = &a.$f {
                s.push_str(&format!(" {}={:?}", stringify!($f), v));
            }
        };
    }
    macro_rules! flag {
        ($f:ident) => {
            if a.$f {
                s.push_str(concat!(" ", stringify!($f)));
            }
        };
    }
    macro_rules! list {
        ($f:ident) => {
            if !a.$f.is_empty() {
                s.push_str(&format!(" {}={:?}", stringify!($f), a.$f));
            }
        };
    }
    opt!(delim);
    opt!(terminator);
    flag!(require_equals);
    flag!(allow_hyphen);
    flag!(allow_negative);
    flag!(last);
    flag!(trailing_var_arg);
    list!(defaults);
    list!(default_missing);
    list!(default_ifs);
    opt!(env);
    opt!(vp);
    flag!(ignore_case);
    flag!(required);
    flag!(exclusive);
    flag!(global);
    flag!(hide);
    flag!(hide_short_help);
    flag!(hide_long_help);
    flag!(hide_possible_values);
    flag!(hide_default_value);
    flag!(next_line_help);
    opt!(help);
    opt!(long_help);
    opt!(heading);
    opt!(display_order);
    list!(value_names);
    opt!(hint);
    list!(conflicts);
    list!(requires);
    list!(requires_ifs);
    list!(overrides);
    list!(required_unless_any);
    list!(required_unless_all);
    list!(required_if_eq_any);
    list!(required_if_eq_all);
    s
}

pub fn brief(c: &CmdSpec) -> String {
    let mut s = String::new();
    brief_into(c, 0, &mut s);
    s
}

fn brief_into(c: &CmdSpec, depth: usize, s: &mut String) {
    let pad = "  ".repeat(depth);
    s.push_str(&format!("\n{}cmd {:?}", pad, c.name));
    if !c.aliases.is_empty() {
        s.push_str(&format!(" aliases{:?}", c.aliases));
    }
    if let Some(f) = c.short_flag {
        s.push_str(&format!(" short_flag=-{}", f));
    }
    if let Some(f) = &c.long_flag {
        s.push_str(&format!(" long_flag=--{}", f));
    }
    if !c.short_flag_aliases.is_empty() {
        s.push_str(&format!(" short_flag_aliases{:?}", c.short_flag_aliases));
    }
    if !c.long_flag_aliases.is_empty() {
        s.push_str(&format!(" long_flag_aliases{:?}", c.long_flag_aliases));
    }
    if !c.settings.is_empty() {
        s.push_str(&format!(" {:?}", c.settings));
    }
    if !c.inherited.is_empty() {
        s.push_str(&format!(" inherited{:?}", c.inherited));
    }
    macro_rules! opt {
        ($f:ident) => {
            if let Some(v) = &c.$f {
                s.push_str(&format!(" {}={:?}", stringify!($f), v));
            }
        };
    }
    opt!(about);
    opt!(long_about);
    opt!(before_help);
    opt!(before_long_help);
    opt!(after_help);
    opt!(after_long_help);
    opt!(version);
    opt!(long_version);
    opt!(author);
    opt!(term_width);
    opt!(max_term_width);
    opt!(help_template);
    opt!(next_help_heading);
    opt!(subcommand_help_heading);
    opt!(subcommand_value_name);
    opt!(display_name);
    opt!(bin_name);
    opt!(override_usage);
    if c.external_string {
        s.push_str(" external=String");
    }
    for a in &c.args {
        s.push_str(&format!("\n{}  arg {}", pad, brief_arg(a)));
    }
    for g in &c.groups {
        s.push_str(&format!(
            "\n{}  group {} members={:?}{}{}{}{}",
            pad,
            g.id,
            g.members,
            if g.required { " required" } else { "" },
            if g.multiple { " multiple" } else { "" },
            if g.conflicts.is_empty() { String::new() } else { format!(" conflicts={:?}", g.conflicts) },
            if g.requires.is_empty() { String::new() } else { format!(" requires={:?}", g.requires) },
        ));
    }
    for sc in &c.subs {
        brief_into(sc, depth + 1, s);
    }
}
