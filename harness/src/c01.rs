//! C01 — parsing is total: any argv against any gate-accepted command returns; errors render;
//! ignore_errors yields matches except for explicit help/version.

use crate::core::*;
use crate::gen::*;
use crate::spec::*;
use clap::error::ErrorKind;
use std::ffi::OsString;

pub fn targeted(rng: &mut Rng, c: &mut CmdSpec) {
    match rng.below(7) {
        6 => {
            // the empty string as a name: a subcommand alias, a possible value, an alias of one
            if !c.subs.is_empty() && rng.coin() {
                let i = rng.below(c.subs.len());
                if !c.subs.iter().any(|s| s.name.is_empty() || s.aliases.iter().any(|(a, _)| a.is_empty())) {
                    c.subs[i].aliases.push((String::new(), rng.coin()));
                }
            }
            for a in c.args.iter_mut() {
                if a.takes_values() && rng.coin() {
                    let mut pvs = vec![
                        Pv { name: String::new(), aliases: vec![], hide: false, help: None },
                        Pv { name: "auto".into(), aliases: vec![], hide: false, help: None },
                    ];
                    if rng.coin() {
                        pvs[1].aliases.push(String::new());
                        pvs.remove(0);
                    }
                    a.vp = Some(Vp::Possible(pvs));
                    a.defaults.clear();
                    a.default_missing.clear();
                    a.default_ifs.clear();
                    a.env = None;
                }
            }
        }
        0 => {
            // args_conflicts_with_subcommands x group x flag subcommand
            c.set(Setting::ArgsConflictsWithSubcommands);
            if c.groups.is_empty() && !c.args.is_empty() {
                let m = c.args[rng.below(c.args.len())].id.clone();
                c.groups.push(GroupSpec { id: "g0".into(), members: vec![m], ..Default::default() });
            }
            for s in c.subs.iter_mut() {
                if s.long_flag.is_none() && rng.coin() {
                    s.long_flag = Some(format!("lf-{}", s.name.replace('_', "-")));
                }
                if s.short_flag.is_none() && rng.coin() {
                    s.short_flag = Some(*rng.pick(&['K', 'L', 'M', 'N', 'P']));
                }
            }
        }
        1 => {
            // hyphen values x terminators x trailing var arg
            for a in c.args.iter_mut() {
                if a.takes_values() {
                    a.allow_hyphen = rng.coin();
                    if rng.coin() {
                        a.num_args = Some((rng.below(2), usize::MAX));
                    }
                    if rng.chance(1, 3) {
                        a.terminator = Some(";".into());
                    }
                }
            }
        }
        2 => {
            c.set(Setting::AllowMissingPositional);
            let n = c.args.iter().filter(|a| a.is_positional()).count();
            let mut k = 0;
            for a in c.args.iter_mut() {
                if a.is_positional() {
                    k += 1;
                    if k == n {
                        a.last = rng.coin();
                        a.required = rng.coin();
                    }
                }
            }
        }
        3 => {
            c.set(Setting::InferLongArgs);
            c.set(Setting::InferSubcommands);
        }
        4 => {
            c.set(Setting::IgnoreErrors);
        }
        _ => {
            c.set(Setting::AllowExternalSubcommands);
            if rng.coin() {
                c.set(Setting::SubcommandPrecedenceOverArg);
            }
        }
    }
}

pub fn touch_matches(m: &clap::ArgMatches, depth: usize) -> usize {
    // walk everything publicly reachable without knowing types
    let mut n = 0;
    for id in m.ids() {
        n += id.as_str().len();
        let _ = m.try_get_raw(id.as_str());
        let _ = m.try_contains_id(id.as_str());
        if let Ok(Some(occ)) = m.try_get_raw_occurrences(id.as_str()) {
            n += occ.count();
        }
    }
    let _ = m.args_present();
    if let Some((name, sub)) = m.subcommand() {
        n += name.len();
        if depth < 8 {
            n += touch_matches(sub, depth + 1);
        }
    }
    let _ = format!("{:?}", m);
    n
}

pub fn touch_error(e: &clap::Error) -> String {
    let r = e.render();
    let plain = r.to_string();
    let _ = r.ansi().to_string();
    let _ = e.kind();
    let _ = e.exit_code();
    let _ = e.use_stderr();
    let _ = format!("{e}");
    let _ = format!("{e:?}");
    for (k, v) in e.context() {
        let _ = format!("{k:?} {v}");
    }
    plain
}

pub fn check_parse(
    st: &mut Stats,
    spec: &CmdSpec,
    cmd: &clap::Command,
    argv: &[OsString],
    op: &str,
    reuse: Option<&mut clap::Command>,
) {
    st.eval();
    let t0 = thread_cpu_ms();
    let r = match reuse {
        Some(c) => catch(|| c.try_get_matches_from_mut(argv.to_vec())),
        None => catch(|| cmd.clone().try_get_matches_from(argv.to_vec())),
    };
    let dt = thread_cpu_ms() - t0;
    if dt > 5000 {
        st.violation(format!("slow:{op}"), format!("{} ms cpu; argv={} spec={}", dt, show_argv(argv), brief(spec)));
    }
    match r {
        Err(p) => {
            st.violation(
                format!("panic:{op}@{}", p.loc),
                format!("{} | argv={} | spec={}", p.msg, show_argv(argv), brief(spec)),
            );
        }
        Ok(Ok(m)) => {
            st.count("result.ok");
            if let Err(p) = catch(|| touch_matches(&m, 0)) {
                st.violation(
                    format!("panic:matches@{}", p.loc),
                    format!("{} | argv={} | spec={}", p.msg, show_argv(argv), brief(spec)),
                );
            }
        }
        Ok(Err(e)) => {
            let kind = e.kind();
            st.count(&format!("result.err.{:?}", kind));
            if let Err(p) = catch(|| touch_error(&e)) {
                st.violation(
                    format!("panic:render-error@{}", p.loc),
                    format!("{} | kind={:?} argv={} | spec={}", p.msg, kind, show_argv(argv), brief(spec)),
                );
            }
            if spec.has(Setting::IgnoreErrors) {
                st.count("ignore_errors.err");
                if !matches!(kind, ErrorKind::DisplayHelp | ErrorKind::DisplayVersion) {
                    st.violation(
                        format!("ignore_errors:err-kind:{:?}", kind),
                        format!("argv={} | spec={}", show_argv(argv), brief(spec)),
                    );
                }
            }
        }
    }
    if spec.has(Setting::IgnoreErrors) {
        st.count("ignore_errors.parses");
    }
}

pub fn gen_spec(rng: &mut Rng, st: &mut Stats) -> Option<(CmdSpec, clap::Command)> {
    let o = WildOpts {
        max_args: 7,
        max_groups: 2,
        max_subs: 3,
        depth: 2,
        ..Default::default()
    };
    let mut spec = wild(rng, &o);
    if rng.chance(1, 3) {
        targeted(rng, &mut spec);
        st.count("stratum.targeted");
    } else {
        st.count("stratum.wild");
    }
    match gate(&spec) {
        Ok(c) => {
            st.count("gate.accepted");
            st.accepted_seeds.push(st.case_seed);
            Some((spec, c))
        }
        Err(p) => {
            st.count("gate.rejected");
            if st.verbose || std::env::var_os("VERIF_GATE_REASONS").is_some() {
                let m: String = p.msg.chars().filter(|c| !c.is_ascii_digit()).take(70).collect();
                st.count(&format!("gatereason.{}", m));
            }
            None
        }
    }
}

pub fn case(seed: u64, st: &mut Stats) {
    let mut rng = Rng::new(seed);
    let Some((spec, cmd)) = gen_spec(&mut rng, st) else { return };
    for s in &spec.settings {
        st.count(&format!("setting.{:?}", s));
    }
    {
        fn widest(c: &CmdSpec) -> usize {
            c.subs.iter().map(widest).max().unwrap_or(0).max(c.args.len())
        }
        fn depth(c: &CmdSpec) -> usize {
            1 + c.subs.iter().map(depth).max().unwrap_or(0)
        }
        if widest(&spec) > 64 {
            st.count("shape.more-than-64-arguments-in-a-command");
        }
        if depth(&spec) > 4 {
            st.count("shape.more-than-4-levels");
        }
    }
    let fp0 = hash_str(&format!("{:?}", spec));
    let max_tokens = match rng.below(64) {
        0 => 400,
        1..=4 => 64,
        5..=11 if st.tier_thorough => 64,
        _ => 10,
    };
    if max_tokens > 10 {
        st.count("argv.long-vectors");
    }
    let mut reused = cmd.clone();
    let n = if st.tier_thorough { 8 } else { 5 };
    for k in 0..n {
        let argv = hostile_argv(&mut rng, &spec, max_tokens);
        if argv.len() > 1 {
            st.nontrivial(mix(fp0, hash_str(&show_argv(&argv))));
        }
        if k == 0 {
            st.sample(|| format!("argv={} against {} args/{} subs", show_argv(&argv), spec.args.len(), spec.subs.len()));
        }
        check_parse(st, &spec, &cmd, &argv, "parse", None);
        if k % 2 == 1 && !spec.has(Setting::Multicall) {
            check_parse(st, &spec, &cmd, &argv, "parse-reused", Some(&mut reused));
        }
    }
}
