//! C10 — rejections are justified, correctly classified, and carry the CLI exit contract.

use crate::core::*;
use crate::model::*;
use crate::spec::*;
use clap::error::{ContextKind, ContextValue, ErrorKind as K};
use std::collections::BTreeSet;
use std::ffi::OsString;

fn looks_like_help_or_version_request(argv: &[OsString]) -> bool {
    for t in argv.iter().skip(1) {
        let s = t.to_string_lossy();
        if let Some(l) = s.strip_prefix("--") {
            let name = l.split('=').next().unwrap_or("");
            if !name.is_empty() && ("help".starts_with(name) || "version".starts_with(name)) {
                return true;
            }
        } else if let Some(c) = s.strip_prefix('-') {
            if c.contains('h') || c.contains('V') {
                return true;
            }
        } else if !s.is_empty() && "help".starts_with(&*s) {
            return true;
        }
    }
    false
}

/// names defined anywhere on the path (suggestions may come from any level reached)
fn all_names(c: &CmdSpec, longs: &mut BTreeSet<String>, subs: &mut BTreeSet<String>, values: &mut BTreeSet<String>) {
    longs.insert("--help".into());
    longs.insert("--version".into());
    subs.insert("help".into());
    for a in &c.args {
        if let Some(l) = &a.long {
            longs.insert(format!("--{}", l));
        }
        for (l, _) in &a.aliases {
            longs.insert(format!("--{}", l));
        }
        if let Some(Vp::Possible(pvs)) = &a.vp {
            for p in pvs {
                values.insert(p.name.clone());
                for al in &p.aliases {
                    values.insert(al.clone());
                }
            }
        }
    }
    for s in &c.subs {
        subs.insert(s.name.clone());
        for (a, _) in &s.aliases {
            subs.insert(a.clone());
        }
        if let Some(l) = &s.long_flag {
            longs.insert(format!("--{}", l));
            subs.insert(format!("--{}", l));
        }
        for (l, _) in &s.long_flag_aliases {
            longs.insert(format!("--{}", l));
        }
        all_names(s, longs, subs, values);
    }
}

/// (c) exit/stream contract and (d) suggestions, for any error
pub fn check_error_contract(st: &mut Stats, spec: &CmdSpec, argv: &[OsString], e: &clap::Error) {
    let kind = e.kind();
    let (want_stderr, want_code) = match kind {
        K::DisplayHelp | K::DisplayVersion => (false, 0),
        _ => (true, 2),
    };
    let ctx = || format!("kind={:?} argv={} | spec={}", kind, show_argv(argv), brief(spec));
    if e.use_stderr() != want_stderr || e.exit_code() != want_code {
        st.violation(
            format!("c10:exit-contract:{:?}", kind),
            format!("use_stderr={} exit_code={} expected ({}, {}) | {}", e.use_stderr(), e.exit_code(), want_stderr, want_code, ctx()),
        );
    }
    st.count(&format!("contract.{:?}", kind));
    if matches!(kind, K::DisplayHelp | K::DisplayVersion) && !looks_like_help_or_version_request(argv) {
        st.violation(format!("c10:unrequested:{:?}", kind), ctx());
    }
    // suggestions only name things that exist
    let mut longs = BTreeSet::new();
    let mut subs = BTreeSet::new();
    let mut values = BTreeSet::new();
    all_names(spec, &mut longs, &mut subs, &mut values);
    for (k, v) in e.context() {
        let vals: Vec<String> = match v {
            ContextValue::String(s) => vec![s.clone()],
            ContextValue::Strings(v) => v.clone(),
            _ => vec![],
        };
        match k {
            ContextKind::SuggestedArg => {
                for s in vals {
                    st.count("suggestion.arg");
                    if !longs.contains(&s) && !subs.contains(&s) {
                        st.violation("c10:suggestion-names-nothing:arg", format!("suggested {:?} | {}", s, ctx()));
                    }
                }
            }
            ContextKind::SuggestedSubcommand => {
                for s in vals {
                    st.count("suggestion.subcommand");
                    if !subs.contains(&s) {
                        st.violation("c10:suggestion-names-nothing:subcommand", format!("suggested {:?} | {}", s, ctx()));
                    }
                }
            }
            ContextKind::SuggestedValue => {
                for s in vals {
                    st.count("suggestion.value");
                    if !values.contains(&s) {
                        st.violation("c10:suggestion-names-nothing:value", format!("suggested {:?} | {}", s, ctx()));
                    }
                }
            }
            _ => {}
        }
    }
}

#[derive(Debug, Clone, Copy, PartialEq)]
enum Fault {
    UnknownLong,
    UnknownShort,
    SurplusPositional,
    DropRequired,
    RepeatSet,
    TooFewValues,
    NoValueAtEnd,
    ValueOnFlag,
    BadTypedValue,
    MissingEquals,
    MissingSubcommand,
    NonUtf8,
    UnknownWord,
}

const FAULTS: [Fault; 13] = [
    Fault::UnknownLong,
    Fault::UnknownShort,
    Fault::SurplusPositional,
    Fault::DropRequired,
    Fault::RepeatSet,
    Fault::TooFewValues,
    Fault::NoValueAtEnd,
    Fault::ValueOnFlag,
    Fault::BadTypedValue,
    Fault::MissingEquals,
    Fault::MissingSubcommand,
    Fault::NonUtf8,
    Fault::UnknownWord,
];

/// the last level reached by the intent
fn last_level<'a>(c: &'a CmdSpec, li: &'a LevelIntent) -> (&'a CmdSpec, &'a LevelIntent) {
    match &li.sub {
        Some((si, ch)) => last_level(&c.subs[*si], ch),
        None => (c, li),
    }
}
fn last_level_mut<'a>(c: &'a CmdSpec, li: &'a mut LevelIntent) -> (&'a CmdSpec, &'a mut LevelIntent) {
    if li.sub.is_some() {
        let (si, ch) = li.sub.as_mut().unwrap();
        last_level_mut(&c.subs[*si], ch)
    } else {
        (c, li)
    }
}

/// returns (argv, justified kinds) or None when the fault is not applicable to this line
fn inject(rng: &mut Rng, spec: &CmdSpec, intent: &LevelIntent, f: Fault) -> Option<(Vec<OsString>, Vec<K>)> {
    let canon = Style::canonical();
    match f {
        Fault::UnknownLong | Fault::UnknownShort => {
            let sty = Style::random(rng);
            let r = render(rng, spec, intent, &sty);
            let mut argv = r.argv;
            let tok = if f == Fault::UnknownLong { "--zzunknownq" } else { "-Z" };
            argv.insert(1, tok.into());
            Some((argv, vec![K::UnknownArgument]))
        }
        Fault::SurplusPositional => {
            let (c, li) = last_level(spec, intent);
            if !c.subs.is_empty() || c.has(Setting::AllowExternalSubcommands) || li.external.is_some() {
                return None;
            }
            // all positionals single-valued and supplied; the line ends in a flag or a positional
            let poss = c.positionals();
            if poss.iter().any(|p| p.eff_num_args().1 > 1 || p.last) {
                return None;
            }
            let given = li.items.iter().filter(|it| matches!(it, Item::Pos { .. })).count();
            if given != poss.len() {
                return None;
            }
            if !matches!(li.items.last(), Some(Item::Flag { .. }) | Some(Item::Pos { .. }) | None) {
                return None;
            }
            let r = render(rng, spec, intent, &canon);
            let mut argv = r.argv;
            argv.push("surplusq".into());
            Some((argv, vec![K::UnknownArgument]))
        }
        Fault::DropRequired => {
            let mut it = intent.clone();
            let (c, li) = last_level_mut(spec, &mut it);
            let req: Vec<usize> = (0..c.args.len()).filter(|i| c.args[*i].required && !c.args[*i].is_positional()).collect();
            if req.is_empty() {
                return None;
            }
            let victim = *rng.pick(&req);
            let before = li.items.len();
            // drop its occurrences (and a terminator that belonged to one)
            let mut out = vec![];
            let mut skip_term = false;
            for x in li.items.drain(..) {
                match &x {
                    Item::Opt { arg, .. } | Item::Flag { arg } if *arg == victim => {
                        skip_term = true;
                        continue;
                    }
                    Item::Term { .. } if skip_term => {
                        skip_term = false;
                        continue;
                    }
                    _ => skip_term = false,
                }
                out.push(x);
            }
            li.items = out;
            if li.items.len() == before {
                return None;
            }
            // removing an occurrence may leave the previous one unclosed before a bare token: keep
            // only shapes where every open occurrence is still followed by a dash token / terminator / the end
            for (k, x) in li.items.iter().enumerate() {
                let (open, is_pos) = match x {
                    Item::Opt { arg, toks } => {
                        let a = &c.args[*arg];
                        (!a.require_equals && a.eff_num_args().1 > toks.len(), false)
                    }
                    Item::Pos { arg, .. } => (c.args[*arg].eff_num_args().1 > 1, true),
                    _ => (false, false),
                };
                if !open {
                    continue;
                }
                let ok = match li.items.get(k + 1) {
                    None => li.sub.is_none() && li.external.is_none(),
                    Some(Item::Flag { .. }) | Some(Item::Opt { .. }) | Some(Item::Term { .. }) => true,
                    Some(Item::Pos { arg, .. }) => is_pos && c.args[*arg].last,
                };
                if !ok {
                    return None;
                }
            }
            let r = render(rng, spec, &it, &canon);
            Some((r.argv, vec![K::MissingRequiredArgument]))
        }
        Fault::RepeatSet => {
            let (c, li) = last_level(spec, intent);
            if c.has(Setting::ArgsOverrideSelf) {
                return None;
            }
            // a Set option given once with an attached-capable single token: repeat it at the end
            for it in &li.items {
                if let Item::Opt { arg, toks } = it {
                    let a = &c.args[*arg];
                    if a.act() == Act::Set && !a.overrides.contains(&a.id) && toks.len() == 1 && a.long.is_some() && !toks[0].is_empty() {
                        if !matches!(li.items.last(), Some(Item::Flag { .. }) | Some(Item::Opt { .. })) || li.sub.is_some() || li.external.is_some() {
                            return None;
                        }
                        if let Some(Item::Opt { arg: la, toks: lt }) = li.items.last() {
                            let l = &c.args[*la];
                            if l.eff_num_args().1 > lt.len() && !l.require_equals {
                                return None; // last option still open: the repeat would be swallowed? no, it starts with `-`; fine, but keep it simple
                            }
                        }
                        let r = render(rng, spec, intent, &canon);
                        let mut argv = r.argv;
                        argv.push(format!("--{}=again", a.long.as_ref().unwrap()).into());
                        return Some((argv, vec![K::ArgumentConflict]));
                    }
                }
            }
            None
        }
        Fault::TooFewValues => {
            let mut it = intent.clone();
            let (c, li) = last_level_mut(spec, &mut it);
            let n = li.items.len();
            for k in 0..n {
                if let Item::Opt { arg, toks } = &li.items[k] {
                    let a = &c.args[*arg];
                    let (lo, hi) = a.eff_num_args();
                    if lo >= 2 && !a.require_equals {
                        // closed by a following dash token or the end only
                        let closed = match li.items.get(k + 1) {
                            None => li.sub.is_none() && li.external.is_none(),
                            Some(Item::Flag { .. }) | Some(Item::Opt { .. }) => true,
                            _ => false,
                        };
                        if !closed {
                            continue;
                        }
                        let _ = toks;
                        let kinds = if lo == hi { vec![K::WrongNumberOfValues] } else { vec![K::TooFewValues] };
                        if let Item::Opt { toks, .. } = &mut li.items[k] {
                            toks.truncate(lo - 1);
                        }
                        let r = render(rng, spec, &it, &canon);
                        return Some((r.argv, kinds));
                    }
                }
            }
            None
        }
        Fault::NoValueAtEnd => {
            let (c, li) = last_level(spec, intent);
            if li.sub.is_some() || li.external.is_some() {
                return None;
            }
            if matches!(li.items.last(), Some(Item::Opt { .. })) {
                return None;
            }
            let used: BTreeSet<usize> = li.items.iter().filter_map(|it| if let Item::Opt { arg, .. } = it { Some(*arg) } else { None }).collect();
            for (ai, a) in c.args.iter().enumerate() {
                if a.takes_values() && !a.is_positional() && a.eff_num_args().0 >= 1 && !used.contains(&ai) && a.long.is_some() && !a.require_equals {
                    // a pending multi-valued positional would not matter: the token starts with `--`
                    let r = render(rng, spec, intent, &canon);
                    if r.argv.iter().any(|t| t == "--") {
                        return None;
                    }
                    let mut argv = r.argv;
                    argv.push(format!("--{}", a.long.as_ref().unwrap()).into());
                    return Some((argv, vec![K::InvalidValue]));
                }
            }
            None
        }
        Fault::ValueOnFlag => {
            let (c, li) = last_level(spec, intent);
            if li.sub.is_some() || li.external.is_some() {
                return None;
            }
            for a in &c.args {
                if !a.takes_values() && a.long.is_some() {
                    let r = render(rng, spec, intent, &canon);
                    if r.argv.iter().any(|t| t == "--") {
                        return None;
                    }
                    if matches!(li.items.last(), Some(Item::Opt { .. })) {
                        return None;
                    }
                    let mut argv = r.argv;
                    // (an empty attached value is a value too)
                    argv.push(format!("--{}={}", a.long.as_ref().unwrap(), if rng.coin() { "v" } else { "" }).into());
                    return Some((argv, vec![K::TooManyValues]));
                }
            }
            None
        }
        Fault::BadTypedValue => {
            let mut it = intent.clone();
            let (c, li) = last_level_mut(spec, &mut it);
            for k in 0..li.items.len() {
                if let Item::Opt { arg, toks } = &li.items[k] {
                    let a = &c.args[*arg];
                    if matches!(a.vp, Some(Vp::Possible(_))) && !toks.is_empty() {
                        // a word outside the enumerated set (also not a case variant of a member)
                        if let Item::Opt { toks, .. } = &mut li.items[k] {
                            toks[0] = if rng.coin() { "fas".into() } else { "nosuchq".into() };
                        }
                        let sty = Style::random(rng);
                        let r = render(rng, spec, &it, &sty);
                        return Some((r.argv, vec![K::InvalidValue]));
                    }
                    if matches!(a.vp, Some(Vp::I64(_, _))) && !toks.is_empty() {
                        let bad = if rng.coin() { "99999999999" } else { "12x" };
                        if let Item::Opt { toks, .. } = &mut li.items[k] {
                            toks[0] = bad.into();
                        }
                        let sty = Style::random(rng);
                        let r = render(rng, spec, &it, &sty);
                        return Some((r.argv, vec![K::ValueValidation]));
                    }
                }
            }
            None
        }
        Fault::MissingEquals => {
            let (c, li) = last_level(spec, intent);
            if li.sub.is_some() || li.external.is_some() || matches!(li.items.last(), Some(Item::Opt { .. })) {
                return None;
            }
            let used: BTreeSet<usize> = li.items.iter().filter_map(|it| if let Item::Opt { arg, .. } = it { Some(*arg) } else { None }).collect();
            for (ai, a) in c.args.iter().enumerate() {
                if a.require_equals && a.eff_num_args().0 >= 1 && a.long.is_some() && !used.contains(&ai) {
                    let r = render(rng, spec, intent, &canon);
                    if r.argv.iter().any(|t| t == "--") {
                        return None;
                    }
                    let mut argv = r.argv;
                    argv.push(format!("--{}", a.long.as_ref().unwrap()).into());
                    argv.push("detached".into());
                    return Some((argv, vec![K::NoEquals]));
                }
            }
            None
        }
        Fault::MissingSubcommand => {
            let (c, li) = last_level(spec, intent);
            if !c.has(Setting::SubcommandRequired) || li.external.is_some() {
                return None;
            }
            let r = render(rng, spec, intent, &canon);
            Some((r.argv, vec![K::MissingSubcommand]))
        }
        Fault::UnknownWord => {
            // an unknown or misspelled plain word where only a subcommand name could stand: the
            // last level has subcommands, no positional slot and no external subcommands
            let mut it = intent.clone();
            let (c, li) = last_level_mut(spec, &mut it);
            if c.subs.is_empty() || !c.positionals().is_empty() || c.has(Setting::AllowExternalSubcommands) || li.external.is_some() {
                return None;
            }
            if rng.coin() {
                li.items.clear();
            }
            if !matches!(li.items.last(), None | Some(Item::Flag { .. })) {
                return None;
            }
            let args_present = !li.items.is_empty();
            let acws = c.has(Setting::ArgsConflictsWithSubcommands);
            let word = if rng.coin() {
                "zzwordq".to_string()
            } else {
                // a misspelling: a real name with one letter appended (never a prefix of a name)
                format!("{}q", rng.pick(&c.subs).name)
            };
            let mut names = BTreeSet::new();
            let (mut l, mut v) = (BTreeSet::new(), BTreeSet::new());
            all_names(c, &mut l, &mut names, &mut v);
            if names.iter().any(|n| n.starts_with(&word)) {
                return None;
            }
            let follow = if rng.chance(1, 3) { Some(rng.pick(&c.subs).name.clone()) } else { None };
            let r = render(rng, spec, &it, &canon);
            let mut argv = r.argv;
            argv.push(word.into());
            if let Some(f) = follow {
                argv.push(f.into());
            }
            // with args_conflicts_with_subcommands a word after a supplied argument is read as
            // "a subcommand used with arguments"; with nothing supplied at this level no
            // conflicting pair exists
            let kinds = if acws && args_present { vec![K::ArgumentConflict, K::InvalidSubcommand] } else { vec![K::InvalidSubcommand] };
            Some((argv, kinds))
        }
        Fault::NonUtf8 => {
            let r = render(rng, spec, intent, &canon);
            // corrupt one positional/option value token that is delivered to a String parser
            let idxs: Vec<usize> = (1..r.argv.len()).filter(|i| r.argv[*i].to_string_lossy().contains("v0") && !r.argv[*i].to_string_lossy().starts_with('-')).collect();
            if idxs.is_empty() {
                return None;
            }
            let i = *rng.pick(&idxs);
            let mut argv = r.argv.clone();
            let mut b = os_bytes(&argv[i]).to_vec();
            b.push(0xff);
            argv[i] = os(&b);
            Some((argv, vec![K::InvalidUtf8]))
        }
    }
}

pub fn case(seed: u64, st: &mut Stats) {
    let mut rng = Rng::new(seed);
    let mut o = ConvOpts::full();
    o.typed = true;
    // the fault injectors reason about "closed by the next dash token"; hyphen/negative values
    // (covered by C02/C08) would make a single fault ambiguous
    o.extended = false;
    let mut spec = conv_cmd(&mut rng, &o);
    // some levels demand a subcommand (MissingSubcommand fault); intents always choose one there
    fn require_subs(rng: &mut Rng, c: &mut CmdSpec) {
        if !c.subs.is_empty() && rng.chance(1, 4) {
            c.set(Setting::SubcommandRequired);
        }
        for s in c.subs.iter_mut() {
            require_subs(rng, s);
        }
    }
    require_subs(&mut rng, &mut spec);
    // some levels forbid mixing their own arguments with a subcommand; fault-free lines respect it
    fn acws(rng: &mut Rng, c: &mut CmdSpec) {
        if !c.subs.is_empty() && rng.chance(1, 3) {
            c.set(Setting::ArgsConflictsWithSubcommands);
        }
        for s in c.subs.iter_mut() {
            acws(rng, s);
        }
    }
    acws(&mut rng, &mut spec);
    if rng.coin() {
        spec.version = Some("1.2.3".into());
    }
    relation_errors_are_justified(&mut rng, st);
    let cmd = match gate(&spec) {
        Ok(c) => c,
        Err(_) => {
            st.count("gate.rejected");
            return;
        }
    };
    let io = IntentOpts::default();
    for _ in 0..3 {
        let mut intent = gen_intent(&mut rng, &spec, &io);
        // satisfy subcommand_required on the fault-free line
        fn force_subs(rng: &mut Rng, c: &CmdSpec, li: &mut LevelIntent, io: &IntentOpts) -> bool {
            if c.has(Setting::SubcommandRequired) && li.sub.is_none() {
                // only possible when nothing left open swallows the name
                if li.external.is_some() || matches!(li.items.last(), Some(Item::Opt { .. }) | Some(Item::Pos { .. })) {
                    return false;
                }
                let si = rng.below(c.subs.len());
                li.sub = Some((si, Box::new(gen_intent(rng, &c.subs[si], io))));
            }
            if let Some((si, ch)) = li.sub.as_mut() {
                return force_subs(rng, &c.subs[*si], ch, io);
            }
            true
        }
        let complete = force_subs(&mut rng, &spec, &mut intent, &io);
        fn respect_acws(c: &CmdSpec, li: &mut LevelIntent) {
            if c.has(Setting::ArgsConflictsWithSubcommands) && li.sub.is_some() {
                li.items.clear();
            }
            if let Some((si, ch)) = li.sub.as_mut() {
                respect_acws(&c.subs[*si], ch);
            }
        }
        respect_acws(&spec, &mut intent);
        // (a) the fault-free line is accepted
        if complete {
            let sty = Style::random(&mut rng);
            let r = render(&mut rng, &spec, &intent, &sty);
            st.eval();
            match catch(|| cmd.clone().try_get_matches_from(r.argv.clone())) {
                Err(p) => st.violation(format!("panic:parse@{}", p.loc), format!("{} | argv={}", p.msg, show_argv(&r.argv))),
                Ok(Ok(_)) => {
                    st.count("faultfree.accepted");
                    if r.features.iter().any(|f| f.starts_with("prefix.long-by-")) {
                        st.count("faultfree.prefix-by-inherited-setting");
                    }
                }
                Ok(Err(e)) => {
                    st.violation(
                        format!("c10:valid-line-rejected:{:?}", e.kind()),
                        format!("{} | argv={} | spec={}", e.render().to_string().lines().next().unwrap_or(""), show_argv(&r.argv), brief(&spec)),
                    );
                    check_error_contract(st, &spec, &r.argv, &e);
                }
            }
        }
        // (b) single faults
        for f in FAULTS {
            if f == Fault::MissingSubcommand {
                // needs the *incomplete* line
                if complete && last_level(&spec, &intent).0.subs.is_empty() {
                    continue;
                }
            } else if !complete {
                continue;
            }
            let mut probe = intent.clone();
            if f == Fault::MissingSubcommand {
                // cut the chain at a level that requires a subcommand
                fn cut(c: &CmdSpec, li: &mut LevelIntent) -> bool {
                    if c.has(Setting::SubcommandRequired) {
                        if matches!(li.items.last(), Some(Item::Opt { .. }) | Some(Item::Pos { .. })) {
                            return false;
                        }
                        li.sub = None;
                        li.external = None;
                        return true;
                    }
                    match li.sub.as_mut() {
                        Some((si, ch)) => cut(&c.subs[*si], ch),
                        None => false,
                    }
                }
                if !cut(&spec, &mut probe) {
                    continue;
                }
            }
            let Some((argv, kinds)) = inject(&mut rng, &spec, &probe, f) else { continue };
            st.eval();
            st.nontrivial(mix(hash_str(&format!("{:?}{:?}", spec, f)), hash_str(&show_argv(&argv))));
            st.sample(|| format!("fault {:?}: argv={}", f, show_argv(&argv)));
            let ctx = || format!("fault {:?} | argv={} | spec={}", f, show_argv(&argv), brief(&spec));
            match catch(|| cmd.clone().try_get_matches_from(argv.clone())) {
                Err(p) => st.violation(format!("panic:parse@{}", p.loc), format!("{} | {}", p.msg, ctx())),
                Ok(Ok(_)) => st.violation(format!("c10:fault-accepted:{:?}", f), ctx()),
                Ok(Err(e)) => {
                    st.count(&format!("fault.{:?}", f));
                    if !kinds.contains(&e.kind()) {
                        st.violation(
                            format!("c10:fault-misclassified:{:?}:{:?}", f, e.kind()),
                            format!("justified kinds {:?}; message: {} | {}", kinds, e.render().to_string().lines().next().unwrap_or(""), ctx()),
                        );
                    }
                    check_error_contract(st, &spec, &argv, &e);
                    if let Err(p) = catch(|| crate::c01::touch_error(&e)) {
                        st.violation(format!("panic:render-error@{}", p.loc), format!("{} | {}", p.msg, ctx()));
                    }
                }
            }
        }
    }
    // (a') fault-free lines of the extended class (negative-number / hyphen values, low-index
    // multiples, precedence settings): no fault injection there, but "inputs that break no rule
    // are not rejected" holds all the same
    if rng.chance(1, 3) {
        let mut o2 = ConvOpts::full();
        o2.extended = true;
        o2.hyphen_pos = true;
        let spec2 = conv_cmd(&mut rng, &o2);
        if let Ok(cmd2) = gate(&spec2) {
            for _ in 0..3 {
                let intent = gen_intent(&mut rng, &spec2, &io);
                let sty = Style::random(&mut rng);
                let r = render(&mut rng, &spec2, &intent, &sty);
                st.eval();
                match catch(|| cmd2.clone().try_get_matches_from(r.argv.clone())) {
                    Err(p) => st.violation(format!("panic:parse@{}", p.loc), format!("{} | argv={}", p.msg, show_argv(&r.argv))),
                    Ok(Ok(_)) => st.count("faultfree.extended-accepted"),
                    Ok(Err(e)) => {
                        st.violation(
                            format!("c10:valid-line-rejected:{:?}", e.kind()),
                            format!("{} | argv={} | spec={}", e.render().to_string().lines().next().unwrap_or(""), show_argv(&r.argv), brief(&spec2)),
                        );
                        check_error_contract(st, &spec2, &r.argv, &e);
                    }
                }
            }
        }
    }
    // "help because nothing was given" is an error outcome, not a help request: with
    // arg_required_else_help a line without arguments at that level goes to stderr with code 2
    if rng.chance(1, 3) {
        let mut spec3 = spec.clone();
        spec3.set(Setting::ArgRequiredElseHelp);
        // (half of the options that may come without a value get no missing-value default: their
        // bare occurrence then holds no value at all)
        for a in spec3.args.iter_mut() {
            if a.takes_values() && a.eff_num_args().0 == 0 && rng.coin() {
                a.default_missing.clear();
            }
        }
        for s in spec3.subs.iter_mut() {
            s.set(Setting::ArgRequiredElseHelp);
        }
        if let Ok(cmd3) = gate(&spec3) {
            let mut lines: Vec<Vec<OsString>> = vec![vec!["prog".into()], vec!["prog".into(), "--".into()]];
            for s in &spec3.subs {
                lines.push(vec!["prog".into(), s.name.clone().into()]);
            }
            // ... and a line that does carry an argument — a flag, or an option given without a
            // value — is not "nothing given"
            for a in spec3.args.iter().filter(|a| a.long.is_some() && (!a.takes_values() || a.eff_num_args().0 == 0)) {
                let argv: Vec<OsString> = vec!["prog".into(), format!("--{}", a.long.as_ref().unwrap()).into()];
                st.eval();
                match catch(|| cmd3.clone().try_get_matches_from(argv.clone())) {
                    Err(p) => st.violation(format!("panic:parse@{}", p.loc), format!("{} | argv={}", p.msg, show_argv(&argv))),
                    Ok(Err(e)) if e.kind() == K::DisplayHelpOnMissingArgumentOrSubcommand => {
                        let what = if !a.takes_values() { "flag" } else if a.default_missing.is_empty() { "option-without-value" } else { "option-with-missing-value-default" };
                        st.violation(format!("c10:else-help-although-argument-given:{}", what), format!("argv={} | spec={}", show_argv(&argv), brief(&spec3)));
                    }
                    Ok(_) => st.count(if a.takes_values() { "else-help.not-shown-for-valueless-option" } else { "else-help.not-shown-for-flag" }),
                }
            }
            for argv in lines {
                st.eval();
                match catch(|| cmd3.clone().try_get_matches_from(argv.clone())) {
                    Err(p) => st.violation(format!("panic:parse@{}", p.loc), format!("{} | argv={}", p.msg, show_argv(&argv))),
                    Ok(Err(e)) => {
                        if e.kind() == K::DisplayHelpOnMissingArgumentOrSubcommand {
                            st.count("else-help.shown");
                        }
                        check_error_contract(st, &spec3, &argv, &e);
                    }
                    Ok(Ok(_)) => {
                        if argv.len() == 1 {
                            st.violation("c10:else-help-missing", format!("an empty line is accepted although arg_required_else_help is set | spec={}", brief(&spec3)));
                        }
                    }
                }
            }
        }
    }
    // (c)/(d) over hostile lines as well: suggestions and the exit contract for every error
    for _ in 0..3 {
        let argv = crate::gen::hostile_argv(&mut rng, &spec, 8);
        st.eval();
        if let Ok(Err(e)) = catch(|| cmd.clone().try_get_matches_from(argv.clone())) {
            st.count("hostile.err");
            check_error_contract(st, &spec, &argv, &e);
        }
    }
}

/// ArgumentConflict / MissingRequiredArgument over random relation graphs must be backed by an
/// actually present conflicting pair / an actually missing required argument.
fn relation_errors_are_justified(rng: &mut Rng, st: &mut Stats) {
    let (spec, env) = crate::c03::gen_spec(rng, false);
    for i in 0..8 {
        let var = format!("CLAPR_{}", i);
        match env.get(&var) {
            Some(v) => std::env::set_var(&var, v),
            None => std::env::remove_var(&var),
        }
    }
    let Ok(cmd) = gate(&spec) else { return };
    for _ in 0..3 {
        let n = spec.args.len();
        let k = rng.below(n + 1);
        let mut order: Vec<usize> = (0..n).collect();
        rng.shuffle(&mut order);
        let mut argv: Vec<OsString> = vec!["prog".into()];
        let mut present = BTreeSet::new();
        let mut values = std::collections::BTreeMap::new();
        for &i in &order[..k] {
            let a = &spec.args[i];
            argv.push(format!("--{}", a.long.as_ref().unwrap()).into());
            present.insert(a.id.clone());
            if a.takes_values() {
                let v = if rng.coin() { "v1" } else { "v2" };
                argv.push(v.into());
                values.insert(a.id.clone(), vec![v.to_string()]);
            } else {
                values.insert(a.id.clone(), vec!["true".to_string()]);
            }
        }
        for a in &spec.args {
            if let Some(var) = &a.env {
                if env.contains_key(var) && !present.contains(&a.id) {
                    present.insert(a.id.clone());
                    values.insert(a.id.clone(), vec!["v1".to_string()]);
                }
            }
        }
        st.eval();
        let ev = crate::c03::Eval { c: &spec, present, values, has_sub: false };
        let ctx = || format!("argv={} env={:?} | spec={}", show_argv(&argv), env, brief(&spec));
        match catch(|| cmd.clone().try_get_matches_from(argv.clone())) {
            Err(p) => st.violation(format!("panic:parse@{}", p.loc), format!("{} | {}", p.msg, ctx())),
            Ok(Ok(_)) => st.count("relations.ok"),
            Ok(Err(e)) => {
                check_error_contract(st, &spec, &argv, &e);
                match e.kind() {
                    K::ArgumentConflict => {
                        st.count("relations.conflict-error");
                        if !ev.conflict_justified(false) {
                            st.violation("c10:unjustified:ArgumentConflict", format!("no declared conflict among the supplied arguments {:?} | {}", ev.present, ctx()));
                        }
                    }
                    K::MissingRequiredArgument => {
                        st.count("relations.missing-error");
                        if !ev.missing_justified() {
                            st.violation("c10:unjustified:MissingRequiredArgument", format!("nothing required is absent; supplied {:?} | {}", ev.present, ctx()));
                        }
                    }
                    k => st.violation(format!("c10:unjustified:{:?}", k), format!("a line of defined flags/options with values was rejected | {}", ctx())),
                }
            }
        }
    }
    for i in 0..8 {
        std::env::remove_var(format!("CLAPR_{}", i));
    }
}
