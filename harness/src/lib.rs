pub mod core;
pub mod gen;
pub mod spec;

pub mod c01;

use crate::core::Stats;

pub struct Monitor {
    pub id: &'static str,
    /// one randomly generated case from a seed
    pub case: fn(u64, &mut Stats),
    /// deterministic enumeration slice (shard, nshards)
    pub exhaustive: Option<fn(usize, usize, &mut Stats)>,
}

pub fn monitors() -> Vec<Monitor> {
    vec![Monitor { id: "C01", case: c01::case, exhaustive: None }]
}
