pub mod core;
pub mod gen;
pub mod spec;

pub mod c01;
pub mod c02;
pub mod c03;
pub mod model;
pub mod c04;
pub mod c05;
pub mod c06;
pub mod c07;
pub mod c08;
pub mod c09;
pub mod c10;
pub mod c11;
pub mod c12;
pub mod c15;
pub mod c16;
pub mod c17;
pub mod c18;
pub mod c19;
pub mod c20;

use crate::core::Stats;

pub struct Monitor {
    pub id: &'static str,
    /// one randomly generated case from a seed
    pub case: fn(u64, &mut Stats),
    /// deterministic enumeration slice (shard, nshards)
    pub exhaustive: Option<fn(usize, usize, &mut Stats)>,
}

pub fn monitors() -> Vec<Monitor> {
    vec![
        Monitor { id: "C01", case: c01::case, exhaustive: None },
        Monitor { id: "C02", case: c02::case, exhaustive: None },
        Monitor { id: "C03", case: c03::case, exhaustive: None },
        Monitor { id: "C04", case: c04::case, exhaustive: Some(c04::exhaustive) },
        Monitor { id: "C05", case: c05::case, exhaustive: None },
        Monitor { id: "C06", case: c06::case, exhaustive: None },
        Monitor { id: "C07", case: c07::case, exhaustive: None },
        Monitor { id: "C08", case: c08::case, exhaustive: None },
        Monitor { id: "C09", case: c09::case, exhaustive: None },
        Monitor { id: "C10", case: c10::case, exhaustive: None },
        Monitor { id: "C11", case: c11::case, exhaustive: None },
        Monitor { id: "C12", case: c12::case, exhaustive: None },
        Monitor { id: "C15", case: c15::case, exhaustive: None },
        Monitor { id: "C16", case: c16::case, exhaustive: None },
        Monitor { id: "C17", case: c17::case, exhaustive: None },
        Monitor { id: "C18", case: c18::case, exhaustive: None },
        Monitor { id: "C19", case: c19::case, exhaustive: None },
        Monitor { id: "C20", case: c20::case, exhaustive: Some(c20::exhaustive) },
    ]
}
