//! Conventional-class reference model: intent -> argv spellings -> expected observation.
//!
//! The expectation is an independent restatement of the documented grammar, not a port of
//! `parser.rs`. The class is restricted to where that grammar is unambiguous (DESIGN §3.2).

use crate::core::*;
use crate::gen::Used;
use crate::spec::*;
use clap::parser::ValueSource;
use std::collections::BTreeMap;
use std::ffi::OsString;

#[derive(Clone, Debug, Default)]
pub struct ConvOpts {
    pub depth: usize,
    pub max_subs: usize,
    pub globals: bool,
    pub defaults: bool,
    pub env: bool,
    pub infer: bool,
    pub flag_subs: bool,
    pub external: bool,
    pub required: bool,
    pub override_self: bool,
    pub last_pos: bool,
    pub typed: bool,
    pub delims: bool,
    pub multi_pos: bool,
    pub aliases: bool,
    pub env_prefix: String,
    /// extended grammar: allow_negative_numbers / allow_hyphen_values on options, subcommand_precedence_over_arg
    pub extended: bool,
    /// a trailing multi-valued positional with allow_hyphen_values (its level then spells option
    /// values detached or with `--long=`: `-oVAL` before such a positional is read as a positional value)
    pub hyphen_pos: bool,
    /// positionals sometimes carry explicit indices and are declared in another order than index order
    pub explicit_index: bool,
}

impl ConvOpts {
    pub fn full() -> Self {
        ConvOpts {
            depth: 2,
            max_subs: 3,
            globals: false,
            defaults: false,
            env: false,
            infer: true,
            flag_subs: true,
            external: false,
            required: true,
            override_self: false,
            last_pos: true,
            typed: false,
            delims: true,
            multi_pos: true,
            aliases: true,
            env_prefix: String::new(),
            extended: true,
            hyphen_pos: false,
            explicit_index: false,
        }
    }
}

/// long names designed so that unique, ambiguous and exact-among-ambiguous prefixes all occur
pub const CONV_LONGS: &[&str] = &[
    "alpha", "alpine", "alp", "beta", "bet", "gamma", "delta", "del", "color", "colour", "config", "verbose", "output", "out", "input",
    "force", "mode", "name", "level", "quiet", "zeta", "dry-run", "no-color", "opt", "file",
];
pub const CONV_SHORTS: &[char] = &['a', 'b', 'c', 'd', 'e', 'f', 'g', 'i', 'j', 'k', 'l', 'm', 'n', 'o', 'p', 'q', 'r', 's', 't', 'u', 'v', 'w', 'x', 'y', 'z', 'é', 'ö', 'Š', '世', '😀', 'Y'];
pub const CONV_SUBS: &[&str] = &["sync", "syn", "status", "stat", "add", "remove", "rm", "list", "query", "push", "pull", "init", "test", "build", "run", "show"];

fn conv_level(rng: &mut Rng, o: &ConvOpts, name: String, depth_left: usize, inherited: &Used, lvl: usize) -> CmdSpec {
    let mut c = CmdSpec { name, ..Default::default() };
    let mut used = inherited.clone();
    used.subs.clear();
    let pick_long = |rng: &mut Rng, used: &mut Used| -> Option<String> {
        for _ in 0..6 {
            let l = rng.pick(CONV_LONGS).to_string();
            if used.longs.insert(l.clone()) {
                return Some(l);
            }
        }
        None
    };
    let pick_short = |rng: &mut Rng, used: &mut Used| -> Option<char> {
        for _ in 0..6 {
            let s = *rng.pick(CONV_SHORTS);
            if used.shorts.insert(s) {
                return Some(s);
            }
        }
        None
    };
    let nflags = rng.below(4);
    let nopts = rng.below(4);
    // (mostly 0..2 positionals; now and then 3 or 4)
    let npos = match rng.below(30) {
        0 | 1 => 3,
        2 => 4,
        n => n % 3,
    };
    let mut k = 0;
    for _ in 0..nflags + nopts {
        let is_flag = k < nflags;
        let mut a = ArgSpec { id: format!("l{}a{}", lvl, k), ..Default::default() };
        k += 1;
        match rng.below(3) {
            0 => a.short = pick_short(rng, &mut used),
            1 => a.long = pick_long(rng, &mut used),
            _ => {
                a.short = pick_short(rng, &mut used);
                a.long = pick_long(rng, &mut used);
            }
        }
        if a.short.is_none() && a.long.is_none() {
            continue;
        }
        if o.aliases && a.long.is_some() && rng.chance(1, 3) {
            // (mostly one alias; now and then a second and a third)
            for _ in 0..*rng.pick(&[1usize, 1, 1, 2, 3]) {
                if let Some(l) = pick_long(rng, &mut used) {
                    a.aliases.push((l, rng.coin()));
                }
            }
        }
        if o.aliases && a.short.is_some() && rng.chance(1, 4) {
            for _ in 0..*rng.pick(&[1usize, 1, 1, 2]) {
                if let Some(s) = pick_short(rng, &mut used) {
                    a.short_aliases.push((s, rng.coin()));
                }
            }
        }
        if is_flag {
            a.action = Some(match rng.below(4) {
                0 => Act::Count,
                1 => Act::SetFalse,
                _ => Act::SetTrue,
            });
        } else {
            a.action = Some(if rng.coin() { Act::Set } else { Act::Append });
            a.num_args = match rng.below(8) {
                0 => Some((2, 2)),
                1 => Some((1, 3)),
                2 => Some((1, usize::MAX)),
                3 => Some((0, 1)),
                4 => Some((2, 3)),
                5 => Some((0, usize::MAX)),
                _ => None,
            };
            // (without a missing-value default an occurrence without value stays an empty occurrence)
            if let Some((0, _)) = a.num_args {
                if !o.extended || rng.chance(2, 3) {
                    a.default_missing = vec![format!("{}dm", a.id)];
                }
            }
            if o.delims && rng.chance(1, 4) {
                a.delim = Some(*rng.pick(&[',', ':']));
                // the missing-value default is split at the delimiter like any other value
                if !a.default_missing.is_empty() && rng.coin() {
                    let d = a.delim.unwrap();
                    a.default_missing = vec![format!("{}dm0{}{}dm1", a.id, d, a.id)];
                }
            }
            if rng.chance(1, 6) {
                let hi = a.eff_num_args().1;
                if hi > 1 {
                    if a.delim.is_some() {
                        a.num_args = Some((a.eff_num_args().0.min(1), 1));
                        a.require_equals = true;
                    }
                } else {
                    a.require_equals = true;
                }
            }
            if a.eff_num_args().1 == usize::MAX && rng.chance(1, 3) {
                a.terminator = Some(";".into());
            }
            if o.defaults && rng.chance(1, 3) {
                a.defaults = vec![format!("{}def", a.id)];
            }
            if o.extended && a.delim.is_none() && rng.chance(1, 5) {
                a.allow_negative = true;
            } else if o.extended && a.delim.is_none() && a.terminator.is_none() && rng.chance(1, 6) {
                // hyphen values: an occurrence is then closed only by its maximum or an attached value
                a.allow_hyphen = true;
                let (lo, hi) = a.eff_num_args();
                if lo == 0 {
                    a.num_args = Some((1, if hi == usize::MAX { 2 } else { hi.max(1) }));
                    a.default_missing.clear();
                } else if hi == usize::MAX {
                    a.num_args = Some((lo, lo + 1));
                }
            }
            if o.typed && a.delim.is_none() && !a.allow_negative && !a.allow_hyphen && rng.chance(1, 5) {
                a.vp = Some(Vp::I64(0, 1_000_000));
                if !a.default_missing.is_empty() {
                    a.default_missing = vec!["7".into()];
                }
                if !a.defaults.is_empty() {
                    a.defaults = vec!["8".into()];
                }
            } else if o.typed && a.delim.is_none() && !a.allow_negative && !a.allow_hyphen && rng.chance(1, 5) {
                // an enumerated value with aliases, sometimes case-insensitive
                a.vp = Some(Vp::Possible(vec![
                    Pv { name: "fast".into(), aliases: vec!["quick".into(), "Rapid".into()], hide: false, help: None },
                    Pv { name: "slow".into(), aliases: vec![], hide: rng.chance(1, 4), help: None },
                    Pv { name: "Auto".into(), aliases: vec!["dflt".into()], hide: false, help: None },
                ]));
                a.ignore_case = rng.coin();
                if !a.default_missing.is_empty() {
                    a.default_missing = vec!["slow".into()];
                }
                if !a.defaults.is_empty() {
                    a.defaults = vec!["fast".into()];
                }
            }
        }
        if o.extended && !is_flag && a.vp.is_none() && rng.chance(1, 6) {
            // (PathBuf would do as well, but its parser rejects the empty string)
            a.vp = Some(Vp::Os);
        }
        if o.env && rng.chance(1, 3) {
            a.env = Some(format!("{}{}", o.env_prefix, a.id.to_uppercase()));
        }
        if o.globals && lvl < o.depth && rng.chance(1, 4) && a.action != Some(Act::Append) {
            a.global = true;
            a.require_equals = false;
        }
        if o.required && !is_flag && !a.global && rng.chance(1, 8) && a.defaults.is_empty() && a.env.is_none() {
            a.required = true;
        }
        if o.override_self && rng.chance(1, 3) {
            a.overrides.push(a.id.clone());
        }
        c.args.push(a);
    }
    for p in 0..npos {
        let mut a = ArgSpec { id: format!("l{}p{}", lvl, p), ..Default::default() };
        let last = p + 1 == npos;
        a.action = Some(Act::Set);
        if last && o.multi_pos && rng.chance(1, 2) {
            a.action = Some(if rng.coin() { Act::Append } else { Act::Set });
            a.num_args = Some(match rng.below(4) {
                0 => (1, usize::MAX),
                1 => (0, usize::MAX),
                2 => (1, 3),
                _ => (2, 2),
            });
            if o.delims && rng.chance(1, 5) {
                a.delim = Some(',');
            }
            if rng.chance(1, 4) {
                a.terminator = Some(";".into());
            }
        }
        if last && o.last_pos && rng.chance(1, 5) {
            a.last = true;
        }
        if o.extended && a.delim.is_none() && rng.chance(1, 5) {
            a.allow_negative = true;
        }
        // a trailing multi-valued positional that swallows everything once it has started (`cmd run -v x`)
        if o.hyphen_pos && last && !a.last && a.eff_num_args().1 == usize::MAX && rng.chance(1, 3) {
            a.allow_hyphen = true;
            a.allow_negative = false;
            a.terminator = None;
            a.delim = None;
        }
        if o.required && rng.chance(1, 6) && c.args.iter().filter(|x| x.is_positional()).all(|x| x.required) && !a.last {
            a.required = true;
        }
        if o.extended && rng.chance(1, 6) {
            a.vp = Some(Vp::Os);
        }
        c.args.push(a);
    }
    // "low index multiple": `cp <files>... <target>` — multi-valued second-to-last positional, required final one
    if o.multi_pos && o.extended && npos >= 2 && rng.chance(1, 4) {
        let idxs: Vec<usize> = (0..c.args.len()).filter(|i| c.args[*i].is_positional()).collect();
        let (second, last) = (idxs[npos - 2], idxs[npos - 1]);
        for i in &idxs {
            c.args[*i].required = true;
        }
        c.args[second].action = Some(if rng.coin() { Act::Append } else { Act::Set });
        c.args[second].num_args = Some((1, usize::MAX));
        // (with a terminator the pair is spelled `a b ; target`)
        c.args[second].terminator = if rng.chance(1, 3) { Some(";".into()) } else { None };
        c.args[second].delim = None;
        // (the look-ahead that hands the last token to the final positional treats any dash-looking
        // token as "a new argument", so a negative-number value for the *final* one is outside this shape)
        // (values of the multi-valued one may be negative numbers: the look-ahead accepts those)
        c.args[second].allow_negative = rng.chance(1, 3);
        c.args[last].allow_negative = false;
        c.args[second].allow_hyphen = false;
        c.args[last].allow_hyphen = false;
        c.args[last].action = Some(Act::Set);
        c.args[last].num_args = None;
        c.args[last].last = false;
        c.args[last].required = true;
        c.args[last].delim = None;
        c.args[last].terminator = None;
    }
    if o.explicit_index && npos >= 2 && rng.chance(1, 5) {
        // explicit indices; the declaration order is shuffled (index order is what the grammar follows)
        let mut k = 0;
        for a in c.args.iter_mut().filter(|a| a.is_positional()) {
            k += 1;
            a.index = Some(k);
        }
        let mut moved: Vec<ArgSpec> = vec![];
        let mut i = 0;
        while i < c.args.len() {
            if c.args[i].is_positional() {
                moved.push(c.args.remove(i));
            } else {
                i += 1;
            }
        }
        rng.shuffle(&mut moved);
        for a in moved {
            let at = rng.below(c.args.len() + 1);
            c.args.insert(at, a);
        }
    }
    if c.args.iter().any(|a| a.is_positional() && a.allow_hyphen) {
        // clap reads a short token with any character that is not a known short (`-oVAL`, `-o=VAL`)
        // as a value of the not-yet-started hyphen positional: options of this level are long-only
        if c.args.iter().any(|a| !a.is_positional() && a.takes_values() && a.long.is_none()) {
            for a in c.args.iter_mut().filter(|a| a.is_positional()) {
                a.allow_hyphen = false;
            }
        } else {
            for a in c.args.iter_mut().filter(|a| !a.is_positional() && a.takes_values()) {
                a.short = None;
                a.short_aliases.clear();
            }
        }
    }
    if o.infer && rng.chance(1, 3) {
        c.set(Setting::InferLongArgs);
    }
    if o.infer && rng.chance(1, 3) {
        c.set(Setting::InferSubcommands);
    }
    if o.extended && rng.chance(1, 4) {
        c.set(Setting::SubcommandPrecedenceOverArg);
    }
    if depth_left > 0 {
        let nsubs = rng.below(o.max_subs + 1);
        let mut down = Used::default();
        for a in &c.args {
            if a.global {
                if let Some(l) = &a.long {
                    down.longs.insert(l.clone());
                }
                for (l, _) in &a.aliases {
                    down.longs.insert(l.clone());
                }
                if let Some(s) = a.short {
                    down.shorts.insert(s);
                }
                for (s, _) in &a.short_aliases {
                    down.shorts.insert(*s);
                }
            }
        }
        down.longs.extend(inherited.longs.iter().cloned());
        down.shorts.extend(inherited.shorts.iter().cloned());
        for _ in 0..nsubs {
            let mut nm = None;
            for _ in 0..6 {
                let l = rng.pick(CONV_SUBS).to_string();
                if used.subs.insert(l.clone()) {
                    nm = Some(l);
                    break;
                }
            }
            let Some(nm) = nm else { continue };
            let mut s = conv_level(rng, o, nm, depth_left - 1, &down, lvl + 1);
            if o.aliases && rng.chance(1, 3) {
                let want = *rng.pick(&[1usize, 1, 1, 2, 3]);
                for _ in 0..6 {
                    let l = rng.pick(CONV_SUBS).to_string();
                    if used.subs.insert(l.clone()) {
                        s.aliases.push((l, rng.coin()));
                        if s.aliases.len() == want {
                            break;
                        }
                    }
                }
            }
            if o.flag_subs && rng.chance(1, 4) {
                s.short_flag = {
                    let mut r = None;
                    for _ in 0..6 {
                        let ch = *rng.pick(&['S', 'Q', 'R', 'T', 'U', 'W']);
                        if used.shorts.insert(ch) {
                            r = Some(ch);
                            break;
                        }
                    }
                    r
                };
            }
            if o.flag_subs && rng.chance(1, 4) {
                s.long_flag = pick_long(rng, &mut used);
                if s.long_flag.is_some() && o.aliases && rng.chance(1, 3) {
                    for _ in 0..rng.range(1, 2) {
                        if let Some(l) = pick_long(rng, &mut used) {
                            s.long_flag_aliases.push((l, rng.coin()));
                        }
                    }
                }
            }
            c.subs.push(s);
        }
        if o.external && rng.chance(1, 3) {
            c.set(Setting::AllowExternalSubcommands);
            c.external_string = rng.chance(1, 3);
        }
    }
    // the multi-valued / last positional rules of clap's gate
    crate::gen::sanitize(&mut c);
    c
}

pub fn conv_cmd(rng: &mut Rng, o: &ConvOpts) -> CmdSpec {
    let mut root = Used::default();
    root.longs.insert("help".into());
    root.longs.insert("version".into());
    root.shorts.insert('h');
    root.shorts.insert('V');
    // now and then a deeper (and narrower) tree than the usual one: chains of four subcommands
    let deep;
    let o = if o.depth >= 2 && rng.chance(1, 12) {
        deep = ConvOpts { depth: o.depth + 2, max_subs: 2, ..o.clone() };
        &deep
    } else {
        o
    };
    let mut c = conv_level(rng, o, "prog".into(), o.depth, &root, 0);
    c.settings.retain(|s| !matches!(s, Setting::SubcommandNegatesReqs));
    // the inference settings reach every level below the one that declares them
    c.push_down(&[Setting::InferLongArgs, Setting::InferSubcommands]);
    c
}

// ------------------------------------------------------------------ intent

#[derive(Clone, Debug, PartialEq)]
pub enum Item {
    Flag { arg: usize },
    Opt { arg: usize, toks: Vec<String> },
    Pos { arg: usize, toks: Vec<String> },
    /// value terminator token for the preceding multi-valued occurrence
    Term { tok: String },
}

#[derive(Clone, Debug, Default)]
pub struct LevelIntent {
    pub items: Vec<Item>,
    /// index into spec.subs
    pub sub: Option<(usize, Box<LevelIntent>)>,
    pub external: Option<(String, Vec<Vec<u8>>)>,
}

#[derive(Clone)]
pub struct IntentOpts {
    pub max_items: usize,
    /// allow repeated Set occurrences (C07)
    pub repeats: bool,
    pub supply_prob: (usize, usize),
    /// infer_subcommands is in effect through a level above (the setting is inherited)
    pub infer_subs_inherited: bool,
}

impl Default for IntentOpts {
    fn default() -> Self {
        IntentOpts { max_items: 6, repeats: false, supply_prob: (1, 2), infer_subs_inherited: false }
    }
}

fn is_selfover(c: &CmdSpec, a: &ArgSpec) -> bool {
    c.has(Setting::ArgsOverrideSelf) || a.overrides.contains(&a.id)
}

/// values are unique ids: `<arg>o<occurrence>v<k>`; a delimiter token carries several
fn value_tok(rng: &mut Rng, a: &ArgSpec, occ: usize, k: usize) -> String {
    if let Some(Vp::I64(_, _)) = a.vp {
        return format!("{}", 1000 * occ + 10 * k + 1 + rng.below(9));
    }
    if let Some(Vp::Possible(pvs)) = &a.vp {
        // a declared name or alias; in any letter case when the argument ignores case
        let pv = rng.pick(pvs);
        let mut names = vec![pv.name.clone()];
        names.extend(pv.aliases.iter().cloned());
        let n = rng.pick(&names).clone();
        return if a.ignore_case { n.chars().map(|c| if rng.coin() { c.to_ascii_uppercase() } else { c.to_ascii_lowercase() }).collect() } else { n };
    }
    if a.allow_negative && rng.coin() {
        // a negative number unique to (arg, occurrence, k)
        let n = hash_str(&a.id) % 900 + 100;
        return if rng.coin() { format!("-{}{}{}", n, occ, k) } else { format!("-{}{}.{}", n, occ, k) };
    }
    let mut base = format!("{}o{}v{}", a.id, occ, k);
    // byte-for-byte: an argument that takes OS strings gets values that are not UTF-8, the invalid
    // bytes behind, between or in front of valid characters
    if matches!(a.vp, Some(Vp::Os) | Some(Vp::Path)) && rng.chance(1, 2) {
        let bad = *rng.pick(&["\\xE9", "\\xFF", "\\xC3", "\\xE2\\x82", "\\xFF\\xFE", "\\x80"]);
        base = match rng.below(4) {
            0 => format!("{}{}", base, bad),
            1 => format!("{}{}z", base, bad),
            2 => format!("{}{}", bad, base),
            _ => format!("{}{}{}é", &base[..2], bad, &base[2..]),
        };
    }
    // the empty string is a value like any other (`--opt=`, `--opt ""`, a `""` positional)
    if !a.allow_hyphen && rng.chance(1, 24) {
        return String::new();
    }
    // so is the lone dash (conventionally "standard input"): one character, no flag in it
    if a.delim.is_none() && rng.chance(1, 30) {
        return "-".into();
    }
    if a.allow_hyphen && rng.chance(2, 3) {
        return if rng.coin() { format!("-{}", base) } else { format!("--{}", base) };
    }
    match a.delim {
        Some(d) if rng.chance(1, 2) => {
            let n = rng.range(2, 3);
            let mut parts: Vec<String> = (0..n).map(|j| format!("{}d{}", base, j)).collect();
            if rng.chance(1, 6) {
                parts.insert(1, String::new()); // empty piece `a,,b`
            }
            if rng.chance(1, 8) {
                parts.push(String::new()); // trailing delimiter
            }
            parts.join(&d.to_string())
        }
        _ => base,
    }
}

/// Generates a valid intent for one level (and recursively the chosen subcommand).
pub fn gen_intent(rng: &mut Rng, c: &CmdSpec, io: &IntentOpts) -> LevelIntent {
    let mut li = LevelIntent::default();
    // far end of "how many": now and then a line with many occurrences and many values
    let many = rng.chance(1, 24);
    let max_items = if many { io.max_items * 10 } else { io.max_items };
    let opts: Vec<usize> = (0..c.args.len()).filter(|i| !c.args[*i].is_positional()).collect();
    let mut poss: Vec<usize> = (0..c.args.len()).filter(|i| c.args[*i].is_positional()).collect();
    // (index order, which explicit indices may make differ from declaration order)
    poss.sort_by_key(|i| c.args[*i].index.unwrap_or(0));
    // choose the subcommand first: closure rules depend on what follows
    let sub = if !c.subs.is_empty() && rng.chance(2, 3) { Some(rng.below(c.subs.len())) } else { None };
    // low-index multiple pair (multi-valued second-to-last + final positional): both supplied,
    // adjacent, at the very end of the line, nothing after them
    let low_index = poss.len() >= 2 && c.args[poss[poss.len() - 2]].eff_num_args().1 > 1 && !c.args[poss[poss.len() - 1]].last;
    // (a subcommand may follow the pair: the look-ahead that hands the last token to the final
    // positional also looks for subcommand names, inferred ones included)
    // a positional that allows hyphen values takes every later token of the line
    let hyphen_pos = poss.iter().any(|p| c.args[*p].allow_hyphen);
    let sub = if hyphen_pos { None } else { sub };
    // which positionals are supplied: a prefix (index order); required ones always
    let mut npos = 0;
    for (k, pi) in poss.iter().enumerate() {
        let a = &c.args[*pi];
        if a.required || rng.chance(2, 3) {
            npos = k + 1;
        } else {
            break;
        }
    }
    // a `last` positional needs `--`, which ends option parsing at this level and forbids a subcommand
    if sub.is_some() {
        while npos > 0 && c.args[poss[npos - 1]].last {
            npos -= 1;
        }
    }
    // option / flag occurrences
    let mut occs: Vec<usize> = vec![];
    let mut occ_count: BTreeMap<usize, usize> = BTreeMap::new();
    for &oi in &opts {
        let a = &c.args[oi];
        if matches!(a.act(), Act::Help | Act::Version | Act::HelpShort | Act::HelpLong) {
            continue;
        }
        let supplied = a.required || rng.chance(io.supply_prob.0, io.supply_prob.1);
        if !supplied {
            continue;
        }
        let reps = if many { rng.range(4, 30) } else { rng.range(1, 3) };
        let n = match a.act() {
            Act::Append | Act::Count => reps,
            Act::Set | Act::SetTrue | Act::SetFalse if io.repeats && is_selfover(c, a) => reps,
            _ => 1,
        };
        for _ in 0..n {
            occs.push(oi);
        }
    }
    rng.shuffle(&mut occs);
    // bound the line length, but never drop the only occurrence of a required option
    while occs.len() > max_items {
        let mut dropped = false;
        for k in (0..occs.len()).rev() {
            let oi = occs[k];
            if !c.args[oi].required || occs.iter().filter(|x| **x == oi).count() > 1 {
                occs.remove(k);
                dropped = true;
                break;
            }
        }
        if !dropped {
            break;
        }
    }
    // interleave positionals at random places among option occurrences
    #[derive(Clone)]
    enum Slot {
        O(usize),
        P(usize),
    }
    let mut slots: Vec<Slot> = occs.iter().map(|o| Slot::O(*o)).collect();
    let mut at = 0;
    for k in 0..npos {
        let a = &c.args[poss[k]];
        if a.last || a.allow_hyphen {
            slots.push(Slot::P(poss[k]));
            continue;
        }
        if low_index && k + 2 >= poss.len() {
            // the pair stays adjacent; half of the time at the very end (where `--` may precede it),
            // otherwise flags/options may follow the final positional
            if k + 2 == poss.len() && rng.coin() {
                at = rng.range(at, slots.len());
                slots.insert(at, Slot::P(poss[k]));
                at += 1;
                slots.insert(at, Slot::P(poss[k + 1]));
                at += 1;
            } else if !slots.iter().any(|s| matches!(s, Slot::P(p) if *p == poss[k])) {
                slots.push(Slot::P(poss[k]));
            }
            continue;
        }
        at = rng.range(at, slots.len());
        slots.insert(at, Slot::P(poss[k]));
        at += 1;
    }
    // a `last` positional is reached through `--` whatever lower-index optional positionals were left out
    if let Some(&lp) = poss.last() {
        if npos < poss.len() && c.args[lp].last && sub.is_none() && !low_index && !hyphen_pos && !c.has(Setting::AllowMissingPositional) && rng.chance(1, 3) {
            slots.push(Slot::P(lp));
        }
    }
    // a `last` positional goes at the very end (after `--`); non-last positionals must not follow it
    let n = slots.len();
    for (si, s) in slots.iter().enumerate() {
        let next_is_dash_or_end = |rng: &mut Rng| -> bool {
            let _ = rng;
            match slots.get(si + 1) {
                None => sub.is_none(),
                Some(Slot::O(_)) => true,
                Some(Slot::P(p)) => c.args[*p].last, // `--` comes first
            }
        };
        match s {
            Slot::O(oi) => {
                let a = &c.args[*oi];
                let k = occ_count.entry(*oi).or_insert(0);
                let occ = *k;
                *k += 1;
                if !a.takes_values() {
                    li.items.push(Item::Flag { arg: *oi });
                    continue;
                }
                let (lo, hi) = a.eff_num_args();
                let prec = c.has(Setting::SubcommandPrecedenceOverArg);
                let closed_by_next = if a.allow_hyphen {
                    // dash words (even `--`) are values while the occurrence is open: only the end closes it
                    si + 1 == n && sub.is_none()
                } else {
                    next_is_dash_or_end(rng) || (prec && si + 1 == n && sub.is_some())
                };
                // number of value tokens
                let ntok = if a.require_equals {
                    if lo == 0 && closed_by_next && rng.chance(1, 3) {
                        0
                    } else {
                        1
                    }
                } else if hi == usize::MAX {
                    rng.range(lo, lo + if many { 40 } else { 3 })
                } else {
                    rng.range(lo, hi)
                };
                let ntok = if ntok == 0 && !closed_by_next { lo.max(1) } else { ntok };
                let mut toks: Vec<String> = (0..ntok).map(|j| value_tok(rng, a, occ, j)).collect();
                // while an option awaits a value, a word spelled like a subcommand is a value
                if !prec && !c.subs.is_empty() && !toks.is_empty() && a.vp.is_none() && a.delim.is_none() && !a.allow_hyphen && !a.allow_negative && rng.chance(1, 12) {
                    let j = rng.below(toks.len());
                    let s = rng.pick(&c.subs);
                    toks[j] = if s.aliases.is_empty() || rng.coin() { s.name.clone() } else { rng.pick(&s.aliases).0.clone() };
                }
                // an option that takes hyphen values also takes the exact spelling of another
                // option of its level as a value
                if a.allow_hyphen && !toks.is_empty() && a.delim.is_none() && rng.chance(1, 4) {
                    let others: Vec<String> = c
                        .args
                        .iter()
                        .filter(|x| !x.is_positional() && x.id != a.id)
                        .filter_map(|x| x.long.as_ref().map(|l| format!("--{}", l)).or(x.short.map(|s| format!("-{}", s))))
                        .collect();
                    if !others.is_empty() {
                        let j = rng.below(toks.len());
                        toks[j] = rng.pick(&others).clone();
                    }
                }
                let open = !a.require_equals && (hi == usize::MAX || ntok < hi);
                li.items.push(Item::Opt { arg: *oi, toks });
                if open && !closed_by_next {
                    // must be closed explicitly: terminator if declared, else fill to the maximum
                    if let Some(t) = &a.terminator {
                        li.items.push(Item::Term { tok: t.clone() });
                    } else if hi != usize::MAX {
                        if let Some(Item::Opt { toks, .. }) = li.items.last_mut() {
                            while toks.len() < hi {
                                let j = toks.len();
                                toks.push(value_tok(rng, a, occ, j));
                            }
                        }
                    } else {
                        // unbounded without terminator followed by a bare token: not expressible;
                        // turn the occurrence into a single attached token (closes by rule 3)
                        if let Some(Item::Opt { toks, .. }) = li.items.last_mut() {
                            toks.truncate(1);
                            if toks.is_empty() {
                                toks.push(value_tok(rng, a, occ, 0));
                            }
                        }
                        li.items.push(Item::Term { tok: String::new() }); // marker: force attached spelling
                    }
                }
            }
            Slot::P(pi) => {
                let a = &c.args[*pi];
                let (lo, hi) = a.eff_num_args();
                let occ = *occ_count.entry(*pi).or_insert(0);
                *occ_count.get_mut(pi).unwrap() += 1;
                // (the low-index multiple hands its last token to the final positional by look-ahead)
                let pair_next = low_index && matches!(slots.get(si + 1), Some(Slot::P(_)));
                let closed_by_next = pair_next || si + 1 == n && (sub.is_none() || c.has(Setting::SubcommandPrecedenceOverArg)) || matches!(slots.get(si + 1), Some(Slot::O(_)));
                let ntok = if hi == usize::MAX { rng.range(lo.max(1), lo.max(1) + if many { 40 } else { 3 }) } else { rng.range(lo.max(1), hi) };
                let open = hi > 1;
                let mut term = None;
                if open && !closed_by_next && !a.last {
                    if let Some(t) = &a.terminator {
                        term = Some(t.clone());
                    }
                    // otherwise it cannot be closed: the caller drops the subcommand
                }
                // (a terminated multi-valued positional switches the low-index look-ahead off: the
                // terminator is then the only way to reach the final positional)
                if pair_next {
                    if let Some(t) = &a.terminator {
                        term = Some(t.clone());
                    }
                }
                let mut toks: Vec<String> = (0..ntok).map(|j| value_tok(rng, a, occ, j)).collect();
                if a.allow_hyphen {
                    // the first value is a plain word; after it anything is a value: known flags and
                    // options of this level, help/version requests, unknown dash words
                    toks[0] = format!("{}o{}v0", a.id, occ);
                    // ... or a short-looking token with at least one character that is no declared
                    // short (`-v#`, `-#v`, `-h#`): not a cluster of flags, hence a value
                    if rng.chance(1, 4) {
                        let mut known: Vec<char> = c.args.iter().filter(|x| !x.is_positional()).filter_map(|x| x.short).collect();
                        if !c.has(Setting::DisableHelpFlag) {
                            known.push('h');
                        }
                        toks[0] = match (known.is_empty(), rng.below(3)) {
                            (false, 0) => format!("-{}#", rng.pick(&known)),
                            (false, 1) => format!("-#{}", rng.pick(&known)),
                            _ => "-#".to_string(),
                        };
                    }
                    for j in 1..toks.len() {
                        if rng.coin() {
                            let known: Vec<&ArgSpec> = c.args.iter().filter(|x| !x.is_positional()).collect();
                            toks[j] = match rng.below(6) {
                                0 if known.iter().any(|x| x.short.is_some()) => {
                                    let shorts: Vec<char> = known.iter().filter_map(|x| x.short).collect();
                                    let mut t = String::from("-");
                                    for _ in 0..rng.range(1, 2) {
                                        t.push(*rng.pick(&shorts));
                                    }
                                    t
                                }
                                1 if known.iter().any(|x| x.long.is_some()) => {
                                    let longs: Vec<&String> = known.iter().filter_map(|x| x.long.as_ref()).collect();
                                    format!("--{}", rng.pick(&longs))
                                }
                                2 => (*rng.pick(&["-h", "--help", "-V", "--version"])).to_string(),
                                3 => format!("--{}o{}v{}=x", a.id, occ, j),
                                _ => format!("-{}o{}v{}", a.id, occ, j),
                            };
                        }
                    }
                }
                li.items.push(Item::Pos { arg: *pi, toks });
                if let Some(t) = term {
                    li.items.push(Item::Term { tok: t });
                }
            }
        }
    }
    // with infer_subcommands the empty string is a prefix of every name: where exactly one
    // subcommand exists it *is* that subcommand (clap's rule, not judged): no empty values there
    // (likewise where a subcommand is *named* `""`)
    if ((c.has(Setting::InferSubcommands) || io.infer_subs_inherited) && !c.subs.is_empty()) || sub_names(c).iter().any(|n| n.is_empty()) {
        for it in li.items.iter_mut() {
            if let Item::Opt { arg, toks } | Item::Pos { arg, toks } = it {
                for (j, t) in toks.iter_mut().enumerate() {
                    if t.is_empty() {
                        *t = format!("{}e{}", c.args[*arg].id, j);
                    }
                }
            }
        }
    }
    // an unbounded positional without terminator directly before a subcommand would swallow it
    let mut sub = sub;
    if let Some(Item::Pos { arg, toks }) = li.items.last() {
        let a = &c.args[*arg];
        let (_, hi) = a.eff_num_args();
        let _ = toks;
        // (with subcommand_precedence_over_arg the name is recognised even while values are pending)
        if hi > 1 && !c.has(Setting::SubcommandPrecedenceOverArg) {
            sub = None;
        }
    }
    if let Some(si) = sub {
        let mut io2 = io.clone();
        io2.infer_subs_inherited = io.infer_subs_inherited || c.has(Setting::InferSubcommands);
        let child = gen_intent(rng, &c.subs[si], &io2);
        li.sub = Some((si, Box::new(child)));
    } else if c.has(Setting::AllowExternalSubcommands) && rng.chance(1, 2) {
        // only when no positional is defined at this level could a bare unknown token be external
        if poss.is_empty() && !matches!(li.items.last(), Some(Item::Opt { .. })) {
            let name = format!("ext{}", rng.below(100));
            let n = rng.below(4);
            let args: Vec<Vec<u8>> = (0..n)
                .map(|_| loop {
                    let t = rng.pick(crate::gen::HOSTILE_TOKENS).to_vec();
                    // a `String` external parser rejects non-UTF-8 by contract
                    if !c.external_string || std::str::from_utf8(&t).is_ok() {
                        break t;
                    }
                })
                .collect();
            li.external = Some((name, args));
        }
    }
    li
}

// ------------------------------------------------------------------ rendering

#[derive(Clone, Debug, Default)]
pub struct Style {
    /// 0..100: probability knobs
    pub eq: usize,
    pub attach_short: usize,
    pub cluster: usize,
    pub alias: usize,
    pub prefix: usize,
    pub prefer_short: usize,
    pub escape: usize,
    /// merge a short flag subcommand into the surrounding clusters (`-vS`, `-Syu`)
    pub merge_flag_sub: usize,
}

impl Style {
    pub fn random(rng: &mut Rng) -> Style {
        Style {
            eq: rng.below(101),
            attach_short: rng.below(101),
            cluster: rng.below(101),
            alias: rng.below(101),
            prefix: rng.below(101),
            prefer_short: rng.below(101),
            escape: rng.below(101),
            merge_flag_sub: 0,
        }
    }
    pub fn canonical() -> Style {
        Style { eq: 0, attach_short: 0, cluster: 0, alias: 0, prefix: 0, prefer_short: 0, escape: 0, merge_flag_sub: 0 }
    }
}

/// where a value (or flag) came from in argv: (token index, char offset)
#[derive(Clone, Debug, PartialEq, Eq, PartialOrd, Ord)]
pub struct Place {
    pub tok: usize,
    pub off: usize,
}

#[derive(Clone, Debug, Default)]
pub struct Rendered {
    pub argv: Vec<OsString>,
    /// per level: arg index -> places of each value / flag occurrence in argv order
    pub places: Vec<BTreeMap<usize, Vec<Place>>>,
    pub features: Vec<&'static str>,
}

fn all_longs_at(c: &CmdSpec, globals: &[&ArgSpec]) -> Vec<String> {
    let mut v = vec!["help".to_string()];
    if c.version.is_some() || c.long_version.is_some() {
        v.push("version".into());
    }
    for a in c.args.iter().chain(globals.iter().copied()) {
        if let Some(l) = &a.long {
            v.push(l.clone());
        }
        for (l, _) in &a.aliases {
            v.push(l.clone());
        }
    }
    for s in &c.subs {
        if let Some(l) = &s.long_flag {
            v.push(l.clone());
        }
        for (l, _) in &s.long_flag_aliases {
            v.push(l.clone());
        }
    }
    v
}

/// a strict prefix of `name` that no other long at this level starts with (and that is not itself a name)
fn unique_prefix(rng: &mut Rng, name: &str, all: &[String]) -> Option<String> {
    let cs: Vec<char> = name.chars().collect();
    let mut cands = vec![];
    for n in 1..cs.len() {
        let p: String = cs[..n].iter().collect();
        let m = all.iter().filter(|l| l.starts_with(&p)).count();
        if m == 1 {
            cands.push(p);
        }
    }
    if cands.is_empty() {
        None
    } else {
        Some(rng.pick(&cands).clone())
    }
}

fn sub_names(c: &CmdSpec) -> Vec<String> {
    let mut v = vec![];
    for s in &c.subs {
        v.push(s.name.clone());
        for (a, _) in &s.aliases {
            v.push(a.clone());
        }
    }
    if !c.subs.is_empty() && !c.has(Setting::DisableHelpSubcommand) {
        v.push("help".into());
    }
    v
}

pub fn render(rng: &mut Rng, root: &CmdSpec, intent: &LevelIntent, st: &Style) -> Rendered {
    let mut r = Rendered::default();
    r.argv.push("prog".into());
    let mut globals: Vec<&ArgSpec> = vec![];
    render_level(rng, root, intent, st, &mut r, &mut globals, 0, None);
    r
}

fn push_tok(r: &mut Rendered, s: String) -> usize {
    // (`\xHH` in a model string is the raw byte: values of OsString-typed arguments may be non-UTF-8)
    r.argv.push(enc_escapes(&s));
    r.argv.len() - 1
}

fn render_level<'a>(rng: &mut Rng, c: &'a CmdSpec, li: &LevelIntent, st: &Style, r: &mut Rendered, globals: &mut Vec<&'a ArgSpec>, lvl: usize, carry: Option<usize>) {
    while r.places.len() <= lvl {
        r.places.push(BTreeMap::new());
    }
    let longs = all_longs_at(c, globals);
    let infer = c.has(Setting::InferLongArgs);
    let long_spelling = |rng: &mut Rng, a: &ArgSpec, r: &mut Rendered| -> String {
        let mut name = a.long.clone().unwrap();
        if !a.aliases.is_empty() && rng.below(100) < st.alias {
            let (n, vis) = rng.pick(&a.aliases).clone();
            name = n;
            r.features.push(if vis { "alias.long" } else { "alias.long-hidden" });
        }
        if infer && rng.below(100) < st.prefix {
            if let Some(p) = unique_prefix(rng, &name, &longs) {
                r.features.push("prefix.long");
                if !c.settings.contains(&Setting::InferLongArgs) {
                    r.features.push(if lvl >= 2 { "prefix.long-by-setting-two-levels-up" } else { "prefix.long-by-inherited-setting" });
                }
                return p;
            }
        }
        name
    };
    let short_spelling = |rng: &mut Rng, a: &ArgSpec, r: &mut Rendered| -> char {
        if !a.short_aliases.is_empty() && rng.below(100) < st.alias {
            let (c, vis) = *rng.pick(&a.short_aliases);
            r.features.push(if vis { "alias.short" } else { "alias.short-hidden" });
            return c;
        }
        a.short.unwrap()
    };
    let mut escaped = false;
    let mut i = 0;
    let items = &li.items;
    // `-Syu`: the child's leading short flags continue the token that named the flag subcommand
    if let Some(ti) = carry {
        while i < items.len() {
            match &items[i] {
                Item::Flag { arg } if c.args[*arg].short.is_some() => {
                    let mut tok = r.argv[ti].to_string_lossy().into_owned();
                    r.places[lvl].entry(*arg).or_default().push(Place { tok: ti, off: tok.len() });
                    tok.push(c.args[*arg].short.unwrap());
                    r.argv[ti] = tok.into();
                    r.features.push("cluster.child-flags-after-flag-sub");
                    i += 1;
                    if rng.below(100) >= 70 {
                        break;
                    }
                }
                _ => break,
            }
        }
    }
    // index of the last token if it is a pure short-flag cluster of this level (for `-vS`)
    let mut last_cluster_tok: Option<usize> = None;
    // `--` may be inserted before a pure positional suffix (documented equivalent), and is required
    // before a `last` positional
    let suffix_start = {
        let mut s = items.len();
        while s > 0 && matches!(items[s - 1], Item::Pos { .. } | Item::Term { .. }) {
            s -= 1;
        }
        s
    };
    while i < items.len() {
        match &items[i] {
            Item::Term { tok } => {
                last_cluster_tok = None;
                if !tok.is_empty() {
                    push_tok(r, tok.clone());
                    r.features.push("terminator");
                }
                i += 1;
            }
            Item::Pos { arg, toks } => {
                last_cluster_tok = None;
                let a = &c.args[*arg];
                if toks.iter().any(|t| t.is_empty()) {
                    r.features.push("value.empty");
                }
                if !escaped {
                    let must = a.last;
                    let may = i >= suffix_start
                        && li.sub.is_none()
                        && li.external.is_none()
                        && !c.has(Setting::AllowMissingPositional)
                        && !c.args.iter().any(|x| x.last);
                    // (a positional's own terminator keeps working after `--`)
                    let term_after = items[i..].iter().any(|it| matches!(it, Item::Term { .. }));
                    if must || (may && rng.below(100) < st.escape) {
                        push_tok(r, "--".into());
                        escaped = true;
                        r.features.push(if must { "escape.required-for-last" } else { "escape.optional" });
                        if term_after {
                            r.features.push("escape.before-terminated-positional");
                        }
                    }
                }
                for t in toks {
                    let ti = push_tok(r, t.clone());
                    place_values(r, lvl, *arg, a, t, ti, 0);
                }
                r.features.push(if toks.len() > 1 { "pos.multi" } else { "pos.single" });
                i += 1;
            }
            Item::Flag { arg } => {
                let a = &c.args[*arg];
                let use_short = a.short.is_some() && (a.long.is_none() || rng.below(100) < st.prefer_short);
                if use_short {
                    // cluster with following short-capable flags, optionally an option last
                    let mut tok = String::from("-");
                    let ti = r.argv.len();
                    let ch = short_spelling(rng, a, r);
                    r.places[lvl].entry(*arg).or_default().push(Place { tok: ti, off: tok.len() });
                    tok.push(ch);
                    i += 1;
                    let mut clustered = 0;
                    while i < items.len() && rng.below(100) < st.cluster {
                        match &items[i] {
                            Item::Flag { arg: b } if c.args[*b].short.is_some() => {
                                let bch = short_spelling(rng, &c.args[*b], r);
                                r.places[lvl].entry(*b).or_default().push(Place { tok: ti, off: tok.len() });
                                tok.push(bch);
                                clustered += 1;
                                i += 1;
                            }
                            Item::Opt { arg: b, toks } if c.args[*b].short.is_some() && !c.args[*b].require_equals => {
                                // option last in the cluster
                                let ob = &c.args[*b];
                                let forced_attach = matches!(items.get(i + 1), Some(Item::Term { tok }) if tok.is_empty());
                                let term_follows = matches!(items.get(i + 1), Some(Item::Term { tok }) if !tok.is_empty());
                                let och = short_spelling(rng, ob, r);
                                tok.push(och);
                                r.features.push("cluster.option-last");
                                if toks.len() == 1 && !term_follows && (forced_attach || (rng.below(100) < st.attach_short && !toks[0].is_empty())) {
                                    if toks[0].is_empty() {
                                        tok.push('='); // `-abo` alone would be "no value"
                                    }
                                    let off = tok.len();
                                    tok.push_str(&toks[0]);
                                    push_tok(r, tok.clone());
                                    place_values(r, lvl, *b, ob, &toks[0], ti, off);
                                } else {
                                    push_tok(r, tok.clone());
                                    for t in toks {
                                        let vi = push_tok(r, t.clone());
                                        place_values(r, lvl, *b, ob, t, vi, 0);
                                    }
                                }
                                tok.clear();
                                i += 1;
                                break;
                            }
                            _ => break,
                        }
                    }
                    if !tok.is_empty() {
                        let t = push_tok(r, tok);
                        last_cluster_tok = Some(t);
                    } else {
                        last_cluster_tok = None;
                    }
                    r.features.push(if clustered > 0 { "cluster.flags" } else { "flag.short" });
                } else {
                    let name = long_spelling(rng, a, r);
                    let ti = push_tok(r, format!("--{}", name));
                    r.places[lvl].entry(*arg).or_default().push(Place { tok: ti, off: 0 });
                    r.features.push("flag.long");
                    last_cluster_tok = None;
                    i += 1;
                }
            }
            Item::Opt { arg, toks } => {
                last_cluster_tok = None;
                let a = &c.args[*arg];
                if toks.iter().any(|t| t.is_empty()) {
                    r.features.push("value.empty");
                }
                let forced_attach = matches!(items.get(i + 1), Some(Item::Term { tok }) if tok.is_empty());
                let term_follows = matches!(items.get(i + 1), Some(Item::Term { tok }) if !tok.is_empty());
                let use_short = a.short.is_some() && (a.long.is_none() || rng.below(100) < st.prefer_short);
                let single = toks.len() == 1;
                // attached spellings only for exactly one value token (an attached value closes the occurrence)
                let attach = single && !term_follows && (a.require_equals || forced_attach || rng.below(100) < st.eq);
                if use_short {
                    let ch = short_spelling(rng, a, r);
                    if attach {
                        let with_eq = a.require_equals || toks[0].is_empty() || rng.below(100) < 50;
                        let head = if with_eq { format!("-{}=", ch) } else { format!("-{}", ch) };
                        let off = head.len();
                        let ti = push_tok(r, format!("{}{}", head, toks[0]));
                        place_values(r, lvl, *arg, a, &toks[0], ti, off);
                        r.features.push(if with_eq { "opt.short-eq" } else { "opt.short-attached" });
                    } else {
                        push_tok(r, format!("-{}", ch));
                        for t in toks {
                            let vi = push_tok(r, t.clone());
                            place_values(r, lvl, *arg, a, t, vi, 0);
                        }
                        r.features.push(if toks.is_empty() { "opt.short-novalue" } else { "opt.short-space" });
                    }
                } else {
                    let name = long_spelling(rng, a, r);
                    if attach {
                        let head = format!("--{}=", name);
                        let off = head.len();
                        let ti = push_tok(r, format!("{}{}", head, toks[0]));
                        place_values(r, lvl, *arg, a, &toks[0], ti, off);
                        r.features.push("opt.long-eq");
                    } else {
                        push_tok(r, format!("--{}", name));
                        for t in toks {
                            let vi = push_tok(r, t.clone());
                            place_values(r, lvl, *arg, a, t, vi, 0);
                        }
                        r.features.push(if toks.is_empty() { "opt.long-novalue" } else if toks.len() > 1 { "opt.long-multi" } else { "opt.long-space" });
                    }
                }
                i += 1;
            }
        }
    }
    if let Some((si, child)) = &li.sub {
        let s = &c.subs[*si];
        // spelling of the subcommand
        let mut choices: Vec<(String, &'static str)> = vec![(s.name.clone(), "sub.name")];
        for (a, _) in &s.aliases {
            choices.push((a.clone(), "sub.alias"));
        }
        if let Some(f) = s.short_flag {
            choices.push((format!("-{}", f), "sub.short-flag"));
        }
        if let Some(l) = &s.long_flag {
            choices.push((format!("--{}", l), "sub.long-flag"));
            for (al, _) in &s.long_flag_aliases {
                choices.push((format!("--{}", al), "sub.long-flag-alias"));
            }
        }
        if c.has(Setting::InferSubcommands) {
            let names = sub_names(c);
            if let Some(p) = unique_prefix(rng, &s.name, &names) {
                choices.push((p, "sub.prefix"));
            }
            // a prefix that only an alias (visible or hidden) has
            for (a, _) in &s.aliases {
                if let Some(p) = unique_prefix(rng, a, &names) {
                    choices.push((p, "sub.prefix"));
                    break;
                }
            }
            // long flag subcommands are inferred the same way, from the long flag or any of its
            // aliases (a prefix no other long of this level shares)
            if let Some(l) = &s.long_flag {
                for l in std::iter::once(l).chain(s.long_flag_aliases.iter().map(|(a, _)| a)) {
                    if let Some(p) = unique_prefix(rng, l, &longs) {
                        choices.push((format!("--{}", p), "sub.long-flag-prefix"));
                    }
                }
            }
        }
        let pick = if rng.below(100) < st.alias.max(st.prefix) { rng.below(choices.len()) } else { 0 };
        let (mut tok, mut feat) = choices[pick].clone();
        let mut carry_tok = None;
        if st.merge_flag_sub > 0 && s.short_flag.is_some() && rng.below(100) < st.merge_flag_sub {
            tok = format!("-{}", s.short_flag.unwrap());
            feat = "sub.short-flag";
        }
        if feat == "sub.short-flag" && st.merge_flag_sub > 0 {
            match last_cluster_tok {
                Some(ti) if rng.coin() => {
                    // `-vS`: parent flags and the flag subcommand in one cluster
                    let mut t = r.argv[ti].to_string_lossy().into_owned();
                    t.push(s.short_flag.unwrap());
                    r.argv[ti] = t.into();
                    r.features.push("cluster.parent-flags-before-flag-sub");
                    carry_tok = Some(ti);
                }
                _ => {
                    carry_tok = Some(push_tok(r, tok.clone()));
                }
            }
        } else {
            push_tok(r, tok);
        }
        r.features.push(feat);
        let before = globals.len();
        for a in &c.args {
            if a.global {
                globals.push(a);
            }
        }
        render_level(rng, s, child, st, r, globals, lvl + 1, carry_tok);
        globals.truncate(before);
    } else if let Some((name, args)) = &li.external {
        push_tok(r, name.clone());
        for a in args {
            r.argv.push(os(a));
        }
        r.features.push("sub.external");
    }
}

fn place_values(r: &mut Rendered, lvl: usize, arg: usize, a: &ArgSpec, tok: &str, ti: usize, off: usize) {
    if tok.contains("\\x") {
        r.features.push(if off > 0 { "value.non-utf8-attached" } else { "value.non-utf8" });
    }
    if tok == "-" {
        r.features.push("value.lone-dash");
    } else if tok.starts_with('-') {
        r.features.push(if a.allow_hyphen { "value.hyphen-looking" } else { "value.negative-number" });
    }
    // one place per value after delimiter splitting, in order of appearance
    let n = match a.delim {
        Some(d) => tok.split(d).count(),
        None => 1,
    };
    let v = r.places[lvl].entry(arg).or_default();
    let mut o = off;
    match a.delim {
        Some(d) => {
            for piece in tok.split(d) {
                v.push(Place { tok: ti, off: o });
                o += piece.len() + d.len_utf8();
            }
        }
        None => v.push(Place { tok: ti, off }),
    }
    let _ = n;
}

// ------------------------------------------------------------------ expectation

#[derive(Clone, Debug, PartialEq, Default)]
pub struct ArgExp {
    /// None = absent
    pub source: Option<Src>,
    /// value-taking args: occurrences of values (after delimiter split, after the action's fold)
    pub occ: Vec<Vec<String>>,
    pub flag: Option<bool>,
    pub count: Option<u8>,
}

#[derive(Clone, Copy, Debug, PartialEq, Eq)]
pub enum Src {
    Cli,
    Env,
    Default,
}

#[derive(Clone, Debug, Default)]
pub struct LevelExp {
    pub args: BTreeMap<String, ArgExp>,
    pub sub: Option<(String, Box<LevelExp>)>,
    pub external: Option<(String, Vec<Vec<u8>>)>,
}

pub fn split_tok(a: &ArgSpec, tok: &str) -> Vec<String> {
    match a.delim {
        Some(d) => tok.split(d).map(|s| s.to_string()).collect(),
        None => vec![tok.to_string()],
    }
}

/// expected observation of one level from the intent alone (no env/default lattice: see `c06`)
pub fn expect_level(c: &CmdSpec, li: &LevelIntent, env: &BTreeMap<String, String>) -> LevelExp {
    let mut e = LevelExp::default();
    for (ai, a) in c.args.iter().enumerate() {
        let mut occs: Vec<Vec<String>> = vec![];
        let mut nflag = 0usize;
        for it in &li.items {
            match it {
                Item::Flag { arg } if *arg == ai => nflag += 1,
                Item::Opt { arg, toks } | Item::Pos { arg, toks } if *arg == ai => {
                    if toks.is_empty() {
                        occs.push(a.default_missing.iter().flat_map(|t| split_tok(a, t)).collect());
                    } else {
                        occs.push(toks.iter().flat_map(|t| split_tok(a, t)).collect());
                    }
                }
                _ => {}
            }
        }
        let mut x = ArgExp::default();
        match a.act() {
            Act::Set | Act::Append => {
                if !occs.is_empty() {
                    x.source = Some(Src::Cli);
                    x.occ = if a.act() == Act::Set { vec![occs.last().unwrap().clone()] } else { occs };
                } else if let Some(v) = a.env.as_ref().and_then(|n| env.get(n)) {
                    x.source = Some(Src::Env);
                    x.occ = vec![split_tok(a, v)];
                } else if !a.defaults.is_empty() {
                    x.source = Some(Src::Default);
                    x.occ = vec![a.defaults.clone()];
                }
            }
            Act::SetTrue | Act::SetFalse => {
                let on = a.act() == Act::SetTrue;
                if nflag > 0 {
                    x.source = Some(Src::Cli);
                    x.flag = Some(on);
                } else {
                    x.source = Some(Src::Default);
                    x.flag = Some(!on);
                }
            }
            Act::Count => {
                if nflag > 0 {
                    x.source = Some(Src::Cli);
                    x.count = Some(nflag.min(255) as u8);
                } else {
                    x.source = Some(Src::Default);
                    x.count = Some(0);
                }
            }
            _ => continue,
        }
        e.args.insert(a.id.clone(), x);
    }
    if let Some((si, child)) = &li.sub {
        e.sub = Some((c.subs[*si].name.clone(), Box::new(expect_level(&c.subs[*si], child, env))));
    }
    e.external = li.external.clone();
    e
}

// ------------------------------------------------------------------ observation

#[derive(Clone, Debug, PartialEq, Default)]
pub struct ArgObs {
    pub source: Option<Src>,
    pub occ: Vec<Vec<String>>,
    pub flat: Vec<String>,
    pub flag: Option<bool>,
    pub count: Option<u8>,
    pub indices: Vec<usize>,
}

#[derive(Clone, Debug, Default)]
pub struct LevelObs {
    pub args: BTreeMap<String, ArgObs>,
    pub sub: Option<(String, Box<LevelObs>)>,
    pub external: Option<Vec<Vec<u8>>>,
}

pub fn src_of(v: Option<ValueSource>) -> Option<Src> {
    match v {
        Some(ValueSource::CommandLine) => Some(Src::Cli),
        Some(ValueSource::EnvVariable) => Some(Src::Env),
        Some(ValueSource::DefaultValue) => Some(Src::Default),
        _ => None,
    }
}

/// walks only ids the spec defines at this level (plus inherited globals passed in)
pub fn observe(c: &CmdSpec, m: &clap::ArgMatches, extra: &[&ArgSpec]) -> LevelObs {
    let mut o = LevelObs::default();
    for a in c.args.iter().chain(extra.iter().copied()) {
        let id = a.id.as_str();
        let mut x = ArgObs::default();
        if m.try_contains_id(id).ok() != Some(true) {
            if !matches!(a.act(), Act::Help | Act::Version | Act::HelpShort | Act::HelpLong) {
                o.args.insert(a.id.clone(), x);
            }
            continue;
        }
        x.source = src_of(m.value_source(id));
        if let Ok(Some(occ)) = m.try_get_raw_occurrences(id) {
            x.occ = occ.map(|vs| vs.map(|v| show_bytes(os_bytes(v))).collect()).collect();
        }
        if let Ok(Some(raw)) = m.try_get_raw(id) {
            x.flat = raw.map(|v| show_bytes(os_bytes(v))).collect();
        }
        match a.act() {
            Act::SetTrue | Act::SetFalse => x.flag = m.try_get_one::<bool>(id).ok().flatten().copied(),
            Act::Count => x.count = m.try_get_one::<u8>(id).ok().flatten().copied(),
            _ => {}
        }
        x.indices = m.indices_of(id).map(|i| i.collect()).unwrap_or_default();
        o.args.insert(a.id.clone(), x);
    }
    if let Some((name, sm)) = m.subcommand() {
        if let Some(s) = c.subs.iter().find(|s| s.name == name) {
            let mut ex: Vec<&ArgSpec> = extra.to_vec();
            for a in &c.args {
                if a.global {
                    ex.push(a);
                }
            }
            o.sub = Some((name.to_string(), Box::new(observe(s, sm, &ex))));
        } else {
            // external subcommand
            let args: Vec<Vec<u8>> = sm
                .try_get_raw("")
                .ok()
                .flatten()
                .map(|r| r.map(|v| os_bytes(v).to_vec()).collect())
                .unwrap_or_default();
            o.sub = Some((name.to_string(), Box::new(LevelObs::default())));
            o.external = Some(args);
        }
    }
    o
}

/// Compare an observation with the expectation at one level; returns the first difference.
pub fn diff_level(c: &CmdSpec, e: &LevelExp, o: &LevelObs, path: &str) -> Option<(String, String)> {
    for a in &c.args {
        let Some(ex) = e.args.get(&a.id) else { continue };
        let ob = o.args.get(&a.id).cloned().unwrap_or_default();
        let what = format!("{}{}", path, a.id);
        match a.act() {
            Act::Set | Act::Append => {
                if ex.source != ob.source {
                    return Some(("source".into(), format!("{}: source expected {:?} observed {:?} (values {:?})", what, ex.source, ob.source, ob.occ)));
                }
                if ex.occ != ob.occ {
                    let kind = if ex.occ.concat() == ob.occ.concat() { "occurrence-boundaries" } else { "values" };
                    return Some((kind.into(), format!("{}: expected occurrences {:?} observed {:?}", what, ex.occ, ob.occ)));
                }
                if ob.flat != ob.occ.concat() {
                    return Some(("flat-vs-occurrences".into(), format!("{}: get_raw {:?} != flattened occurrences {:?}", what, ob.flat, ob.occ)));
                }
            }
            Act::SetTrue | Act::SetFalse => {
                if ex.flag != ob.flag || ex.source != ob.source {
                    return Some(("flag".into(), format!("{}: expected {:?}/{:?} observed {:?}/{:?}", what, ex.flag, ex.source, ob.flag, ob.source)));
                }
            }
            Act::Count => {
                if ex.count != ob.count || ex.source != ob.source {
                    return Some(("count".into(), format!("{}: expected {:?}/{:?} observed {:?}/{:?}", what, ex.count, ex.source, ob.count, ob.source)));
                }
            }
            _ => {}
        }
    }
    match (&e.sub, &o.sub) {
        (None, None) => {}
        (Some((en, ee)), Some((on, oo))) => {
            if en != on {
                return Some(("subcommand".into(), format!("{}subcommand expected {:?} observed {:?}", path, en, on)));
            }
            let s = c.sub(en).unwrap();
            if let Some(d) = diff_level(s, ee, oo, &format!("{}{}/", path, en)) {
                return Some(d);
            }
        }
        (None, Some((on, _))) => {
            if let Some((name, args)) = &e.external {
                if name != on {
                    return Some(("external-name".into(), format!("{}external subcommand expected {:?} observed {:?}", path, name, on)));
                }
                if o.external.as_ref() != Some(args) {
                    return Some(("external-args".into(), format!("{}external args expected {:?} observed {:?}", path, args, o.external)));
                }
            } else {
                return Some(("subcommand".into(), format!("{}unexpected subcommand {:?}", path, on)));
            }
        }
        (Some((en, _)), None) => return Some(("subcommand".into(), format!("{}subcommand {:?} expected, none observed", path, en))),
    }
    None
}

/// index oracle for one level: indices of command-line-sourced, non-global args are unique and
/// ordered like the argv places the renderer recorded.
pub fn check_indices(c: &CmdSpec, o: &LevelObs, places: &BTreeMap<usize, Vec<Place>>) -> Option<String> {
    let mut all: Vec<(usize, Place, String)> = vec![];
    for (ai, a) in c.args.iter().enumerate() {
        if a.global {
            continue;
        }
        let Some(ob) = o.args.get(&a.id) else { continue };
        if ob.source != Some(Src::Cli) {
            continue;
        }
        let pl = places.get(&ai).cloned().unwrap_or_default();
        match a.act() {
            Act::Set | Act::Append => {
                let nvals = ob.flat.len();
                if ob.indices.len() != nvals {
                    return Some(format!("{}: {} values but {} indices", a.id, nvals, ob.indices.len()));
                }
                // the observed values are the last `nvals` placed values (Set keeps the last occurrence)
                if pl.len() < nvals {
                    // default_missing values have no place in argv
                    continue;
                }
                let pl = &pl[pl.len() - nvals..];
                for (k, idx) in ob.indices.iter().enumerate() {
                    all.push((*idx, pl[k].clone(), format!("{}#{}", a.id, k)));
                }
            }
            Act::SetTrue | Act::SetFalse | Act::Count => {
                if let (Some(idx), Some(p)) = (ob.indices.last(), pl.last()) {
                    all.push((*idx, p.clone(), a.id.clone()));
                }
            }
            _ => {}
        }
    }
    let mut seen = std::collections::BTreeSet::new();
    for (idx, _, who) in &all {
        if !seen.insert(*idx) {
            return Some(format!("index {} reported twice (at {})", idx, who));
        }
    }
    let mut by_idx = all.clone();
    by_idx.sort_by_key(|x| x.0);
    let mut by_place = all;
    by_place.sort_by(|a, b| a.1.cmp(&b.1));
    let a: Vec<&String> = by_idx.iter().map(|x| &x.2).collect();
    let b: Vec<&String> = by_place.iter().map(|x| &x.2).collect();
    if a != b {
        return Some(format!("index order {:?} differs from argv order {:?}", a, b));
    }
    None
}
