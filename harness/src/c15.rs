//! C15 — derived parsers are exactly their command plus field extraction, and round-trip.
//!
//! A corpus of derived types spanning the type-shape x attribute matrix. For every type the
//! extractor (`extract`) is written by shape against the *builder* API, independently of the
//! derive macros; `pieces` prints a value back to argv field by field.

use crate::core::*;
use clap::error::ErrorKind;
use clap::parser::ValueSource;
use clap::{ArgMatches, Args, CommandFactory, FromArgMatches, Parser, Subcommand, ValueEnum};
use std::ffi::OsString;
use std::fmt::Debug;

pub trait Corpus: Parser + PartialEq + Debug + Clone {
    const NAME: &'static str;
    /// independent extraction by type shape
    fn extract(m: &ArgMatches) -> Self;
    /// canonical argv, field by field: (arg id, tokens)
    fn pieces(&self) -> Vec<(&'static str, Vec<String>)>;
    fn arbitrary(rng: &mut Rng) -> Self;
    /// (arg id, debug rendering of the field) for the update frame check
    fn fields(&self) -> Vec<(&'static str, String)>;
    /// may this type be used in the update-frame check (no subcommands)?
    const UPDATABLE: bool = true;
}

fn word(rng: &mut Rng) -> String {
    let n = rng.range(1, 6);
    (0..n).map(|_| (b'a' + rng.below(26) as u8) as char).collect()
}
fn opt<T>(rng: &mut Rng, f: impl FnOnce(&mut Rng) -> T) -> Option<T> {
    if rng.coin() {
        Some(f(rng))
    } else {
        None
    }
}
fn vecn<T>(rng: &mut Rng, lo: usize, hi: usize, mut f: impl FnMut(&mut Rng) -> T) -> Vec<T> {
    (0..rng.range(lo, hi)).map(|_| f(rng)).collect()
}
fn strs<T: ToString>(v: &[T]) -> Vec<String> {
    v.iter().map(|x| x.to_string()).collect()
}
fn one<T: Clone + Send + Sync + 'static>(m: &ArgMatches, id: &str) -> Option<T> {
    m.get_one::<T>(id).cloned()
}
fn many<T: Clone + Send + Sync + 'static>(m: &ArgMatches, id: &str) -> Vec<T> {
    m.get_many::<T>(id).map(|v| v.cloned().collect()).unwrap_or_default()
}
fn occs<T: Clone + Send + Sync + 'static>(m: &ArgMatches, id: &str) -> Vec<Vec<T>> {
    m.get_occurrences::<T>(id).map(|o| o.map(|v| v.cloned().collect()).collect()).unwrap_or_default()
}

// ------------------------------------------------------------------ value enum

#[derive(ValueEnum, Clone, Copy, Debug, PartialEq, Eq)]
pub enum Mode {
    Fast,
    #[value(alias = "slw", alias = "sluggish")]
    Slow,
    #[value(name = "very-slow")]
    VerySlow,
    #[value(skip)]
    Internal,
    CamelCaseName,
    #[value(hide = true, alias = "dbg")]
    Debug,
}
impl Mode {
    fn arb(rng: &mut Rng) -> Mode {
        *rng.pick(&[Mode::Fast, Mode::Slow, Mode::VerySlow, Mode::CamelCaseName, Mode::Debug])
    }
    fn print(&self) -> String {
        self.to_possible_value().unwrap().get_name().to_string()
    }
}

// ------------------------------------------------------------------ A: flags, counter, optional

#[derive(Parser, Clone, Debug, PartialEq)]
#[command(name = "a")]
pub struct A {
    #[arg(short, long)]
    verbose: bool,
    #[arg(short = 'c', long, action = clap::ArgAction::Count)]
    count: u8,
    #[arg(long)]
    name: Option<String>,
    #[arg(long = "no-color", action = clap::ArgAction::SetFalse)]
    color: bool,
}
impl Corpus for A {
    const NAME: &'static str = "A(bool,count,Option,SetFalse)";
    fn extract(m: &ArgMatches) -> Self {
        A { verbose: m.get_flag("verbose"), count: m.get_count("count"), name: one(m, "name"), color: m.get_flag("color") }
    }
    fn pieces(&self) -> Vec<(&'static str, Vec<String>)> {
        vec![
            ("verbose", if self.verbose { vec!["--verbose".into()] } else { vec![] }),
            ("count", (0..self.count).map(|_| "-c".to_string()).collect()),
            ("name", self.name.iter().flat_map(|n| ["--name".to_string(), n.clone()]).collect()),
            ("color", if self.color { vec![] } else { vec!["--no-color".into()] }),
        ]
    }
    fn arbitrary(rng: &mut Rng) -> Self {
        A { verbose: rng.coin(), count: rng.below(4) as u8, name: opt(rng, word), color: rng.coin() }
    }
    fn fields(&self) -> Vec<(&'static str, String)> {
        vec![("verbose", format!("{:?}", self.verbose)), ("count", format!("{:?}", self.count)), ("name", format!("{:?}", self.name)), ("color", format!("{:?}", self.color))]
    }
}

// ------------------------------------------------------------------ B: required, optional typed, optional-optional

#[derive(Parser, Clone, Debug, PartialEq)]
#[command(name = "b")]
pub struct B {
    #[arg(long)]
    req: String,
    #[arg(long)]
    num: Option<i32>,
    #[arg(long)]
    oo: Option<Option<String>>,
    #[arg(short = 'm', long, value_enum)]
    mode: Option<Mode>,
    /// a scalar field whose argument ends up holding several values: the field is the first one
    #[arg(long, value_delimiter = ',')]
    csv: Option<String>,
}
impl Corpus for B {
    const NAME: &'static str = "B(T,Option<T>,Option<Option<T>>,value_enum)";
    fn extract(m: &ArgMatches) -> Self {
        B {
            req: one(m, "req").unwrap(),
            num: one(m, "num"),
            oo: if m.contains_id("oo") { Some(one(m, "oo")) } else { None },
            mode: one(m, "mode"),
            csv: one(m, "csv"),
        }
    }
    fn pieces(&self) -> Vec<(&'static str, Vec<String>)> {
        vec![
            ("req", vec!["--req".into(), self.req.clone()]),
            ("num", self.num.iter().map(|n| format!("--num={}", n)).collect()),
            (
                "oo",
                match &self.oo {
                    None => vec![],
                    Some(None) => vec!["--oo".into()],
                    Some(Some(v)) => vec![format!("--oo={}", v)],
                },
            ),
            ("mode", self.mode.iter().flat_map(|m| ["-m".to_string(), m.print()]).collect()),
            // printed with a second delimited piece behind it
            ("csv", self.csv.iter().map(|v| format!("--csv={},tail", v)).collect()),
        ]
    }
    fn arbitrary(rng: &mut Rng) -> Self {
        B { req: word(rng), num: opt(rng, |r| r.below(2000) as i32 - 1000), oo: opt(rng, |r| opt(r, word)), mode: opt(rng, Mode::arb), csv: opt(rng, word) }
    }
    fn fields(&self) -> Vec<(&'static str, String)> {
        vec![("req", format!("{:?}", self.req)), ("num", format!("{:?}", self.num)), ("oo", format!("{:?}", self.oo)), ("mode", format!("{:?}", self.mode)), ("csv", format!("{:?}", self.csv))]
    }
}

// ------------------------------------------------------------------ C: vectors

#[derive(Parser, Clone, Debug, PartialEq)]
#[command(name = "c")]
pub struct C {
    #[arg(long)]
    v: Vec<String>,
    #[arg(long)]
    ov: Option<Vec<i64>>,
    #[arg(long, num_args = 1.., value_delimiter = ',')]
    d: Vec<u16>,
    #[arg(long, value_enum)]
    modes: Vec<Mode>,
}
impl Corpus for C {
    const NAME: &'static str = "C(Vec,Option<Vec>,delimited Vec,Vec<enum>)";
    fn extract(m: &ArgMatches) -> Self {
        C { v: many(m, "v"), ov: if m.contains_id("ov") { Some(many(m, "ov")) } else { None }, d: many(m, "d"), modes: many(m, "modes") }
    }
    fn pieces(&self) -> Vec<(&'static str, Vec<String>)> {
        vec![
            ("v", self.v.iter().flat_map(|x| ["--v".to_string(), x.clone()]).collect()),
            ("ov", self.ov.iter().flat_map(|v| v.iter().flat_map(|x| ["--ov".to_string(), x.to_string()])).collect()),
            ("d", if self.d.is_empty() { vec![] } else { vec!["--d".into(), strs(&self.d).join(",")] }),
            ("modes", self.modes.iter().flat_map(|x| ["--modes".to_string(), x.print()]).collect()),
        ]
    }
    fn arbitrary(rng: &mut Rng) -> Self {
        C {
            v: vecn(rng, 0, 3, word),
            // Some(empty) cannot be printed (no occurrence): draw None or non-empty
            ov: opt(rng, |r| vecn(r, 1, 3, |r| r.below(100) as i64)),
            d: vecn(rng, 0, 4, |r| r.below(60000) as u16),
            modes: vecn(rng, 0, 3, Mode::arb),
        }
    }
    fn fields(&self) -> Vec<(&'static str, String)> {
        vec![("v", format!("{:?}", self.v)), ("ov", format!("{:?}", self.ov)), ("d", format!("{:?}", self.d)), ("modes", format!("{:?}", self.modes))]
    }
}

// ------------------------------------------------------------------ D: fixed-arity vector, `last` vector, env
// (`Vec<Vec<T>>` fields need clap's `unstable-v5` feature, which changes clap's behaviour for every
// other monitor of this harness; that shape is not exercised.)

#[derive(Parser, Clone, Debug, PartialEq)]
#[command(name = "d")]
pub struct D {
    #[arg(long, num_args = 2)]
    pair: Vec<String>,
    #[arg(long, env = "CLAPD_D_NEVER_SET")]
    e: Option<String>,
    #[arg(last = true)]
    tail: Vec<String>,
}
impl Corpus for D {
    const NAME: &'static str = "D(Vec num_args=2,env,last Vec)";
    fn extract(m: &ArgMatches) -> Self {
        D { pair: many(m, "pair"), e: one(m, "e"), tail: many(m, "tail") }
    }
    fn pieces(&self) -> Vec<(&'static str, Vec<String>)> {
        vec![
            ("pair", self.pair.chunks(2).flat_map(|c| std::iter::once("--pair".to_string()).chain(c.iter().cloned())).collect()),
            ("e", self.e.iter().flat_map(|x| ["--e".to_string(), x.clone()]).collect()),
            ("tail", if self.tail.is_empty() { vec![] } else { std::iter::once("--".to_string()).chain(self.tail.iter().cloned()).collect() }),
        ]
    }
    fn arbitrary(rng: &mut Rng) -> Self {
        D { pair: vecn(rng, 0, 2, |r| vec![word(r), word(r)]).concat(), e: opt(rng, word), tail: vecn(rng, 0, 3, |r| if r.coin() { word(r) } else { format!("--{}", word(r)) }) }
    }
    fn fields(&self) -> Vec<(&'static str, String)> {
        vec![("pair", format!("{:?}", self.pair)), ("e", format!("{:?}", self.e)), ("tail", format!("{:?}", self.tail))]
    }
}

// ------------------------------------------------------------------ E: positionals

#[derive(Parser, Clone, Debug, PartialEq)]
#[command(name = "e")]
pub struct E {
    first: String,
    second: Option<u8>,
    rest: Vec<String>,
    #[arg(short)]
    x: bool,
}
impl Corpus for E {
    const NAME: &'static str = "E(positionals T,Option,Vec)";
    fn extract(m: &ArgMatches) -> Self {
        E { first: one(m, "first").unwrap(), second: one(m, "second"), rest: many(m, "rest"), x: m.get_flag("x") }
    }
    fn pieces(&self) -> Vec<(&'static str, Vec<String>)> {
        vec![
            ("x", if self.x { vec!["-x".into()] } else { vec![] }),
            ("first", vec![self.first.clone()]),
            ("second", self.second.iter().map(|s| s.to_string()).collect()),
            ("rest", self.rest.clone()),
        ]
    }
    fn arbitrary(rng: &mut Rng) -> Self {
        let second = opt(rng, |r| r.below(256) as u8);
        // `rest` can only be given when `second` is
        let rest = if second.is_some() { vecn(rng, 0, 3, word) } else { vec![] };
        E { first: word(rng), second, rest, x: rng.coin() }
    }
    fn fields(&self) -> Vec<(&'static str, String)> {
        vec![("x", format!("{:?}", self.x)), ("first", format!("{:?}", self.first)), ("second", format!("{:?}", self.second)), ("rest", format!("{:?}", self.rest))]
    }
    // positional pieces cannot be given selectively
    const UPDATABLE: bool = false;
}

// ------------------------------------------------------------------ F: defaults

#[derive(Parser, Clone, Debug, PartialEq)]
#[command(name = "f", rename_all = "snake_case")]
pub struct F {
    #[arg(long, default_value_t = 5)]
    n_value: i32,
    #[arg(long, default_values_t = vec![1, 2])]
    ns: Vec<i32>,
    #[arg(long, default_value = "x")]
    s: String,
    #[arg(long)]
    plain_opt: Option<String>,
    #[arg(long, num_args = 0..=1, default_missing_value = "auto", default_value = "never")]
    when: String,
    /// optional-optional with a default: the matches always hold something for it
    #[arg(long, default_value = "oodef")]
    ood: Option<Option<String>>,
}
impl Corpus for F {
    const NAME: &'static str = "F(default_value_t,default_values_t,default_missing,Option<Option<T>>+default,rename_all=snake)";
    fn extract(m: &ArgMatches) -> Self {
        F {
            n_value: one(m, "n_value").unwrap(),
            ns: many(m, "ns"),
            s: one(m, "s").unwrap(),
            plain_opt: one(m, "plain_opt"),
            when: one(m, "when").unwrap(),
            ood: if m.contains_id("ood") { Some(one(m, "ood")) } else { None },
        }
    }
    fn pieces(&self) -> Vec<(&'static str, Vec<String>)> {
        vec![
            ("n_value", vec![format!("--n_value={}", self.n_value)]),
            ("ns", self.ns.iter().map(|x| format!("--ns={}", x)).collect()),
            ("s", vec!["--s".into(), self.s.clone()]),
            ("plain_opt", self.plain_opt.iter().flat_map(|x| ["--plain_opt".to_string(), x.clone()]).collect()),
            ("when", vec![format!("--when={}", self.when)]),
            (
                "ood",
                match &self.ood {
                    None => vec![],
                    Some(None) => vec!["--ood".into()],
                    Some(Some(v)) => vec![format!("--ood={}", v)],
                },
            ),
        ]
    }
    fn arbitrary(rng: &mut Rng) -> Self {
        F { n_value: rng.below(100) as i32 - 50, ns: vecn(rng, 1, 3, |r| r.below(10) as i32), s: word(rng), plain_opt: opt(rng, word), when: word(rng), ood: Some(opt(rng, word)) }
    }
    fn fields(&self) -> Vec<(&'static str, String)> {
        vec![
            ("n_value", format!("{:?}", self.n_value)),
            ("ns", format!("{:?}", self.ns)),
            ("s", format!("{:?}", self.s)),
            ("plain_opt", format!("{:?}", self.plain_opt)),
            ("when", format!("{:?}", self.when)),
            ("ood", format!("{:?}", self.ood)),
        ]
    }
}

// ------------------------------------------------------------------ G/H: flatten, global, subcommands

#[derive(Args, Clone, Debug, PartialEq)]
pub struct Inner {
    #[arg(long)]
    level: Option<u32>,
    #[arg(long)]
    tag: Vec<String>,
}

#[derive(Args, Clone, Debug, PartialEq)]
pub struct RemoveArgs {
    #[arg(short, long)]
    recursive: bool,
    target: String,
}

#[derive(Subcommand, Clone, Debug, PartialEq)]
pub enum Sub {
    Add {
        name: String,
        #[arg(short)]
        force: bool,
    },
    #[command(alias = "rm")]
    Remove(RemoveArgs),
    Nested {
        #[command(subcommand)]
        inner: Deep,
    },
    /// a tuple variant that is itself a subcommand enum (`remote fetch --all`)
    #[command(subcommand)]
    Remote(Deep2),
    #[command(external_subcommand)]
    Ext(Vec<OsString>),
}

#[derive(Subcommand, Clone, Debug, PartialEq)]
pub enum Deep2 {
    Fetch {
        #[arg(long)]
        all: bool,
    },
    Prune,
}

#[derive(Subcommand, Clone, Debug, PartialEq)]
pub enum Deep {
    Leaf {
        #[arg(long)]
        x: Option<i8>,
    },
    Unit,
}

#[derive(Parser, Clone, Debug, PartialEq)]
#[command(name = "g")]
pub struct G {
    #[command(flatten)]
    inner: Inner,
    #[arg(long, global = true)]
    g: bool,
    #[command(subcommand)]
    cmd: Option<Sub>,
}

fn extract_inner(m: &ArgMatches) -> Inner {
    Inner { level: one(m, "level"), tag: many(m, "tag") }
}
fn extract_sub(m: &ArgMatches) -> Option<Sub> {
    match m.subcommand() {
        None => None,
        // after `--` a known name is an *external* subcommand: its matches hold the raw args under ""
        Some((ext, sm)) if sm.contains_id("") => {
            let mut v = vec![OsString::from(ext)];
            v.extend(sm.get_many::<OsString>("").into_iter().flatten().cloned());
            Some(Sub::Ext(v))
        }
        Some(("add", sm)) => Some(Sub::Add { name: one(sm, "name").unwrap(), force: sm.get_flag("force") }),
        Some(("remove", sm)) => Some(Sub::Remove(RemoveArgs { recursive: sm.get_flag("recursive"), target: one(sm, "target").unwrap() })),
        Some(("remote", sm)) => Some(Sub::Remote(match sm.subcommand() {
            Some(("fetch", fm)) => Deep2::Fetch { all: fm.get_flag("all") },
            Some(("prune", _)) => Deep2::Prune,
            other => panic!("harness: unexpected remote subcommand {:?}", other.map(|o| o.0)),
        })),
        Some(("nested", sm)) => Some(Sub::Nested {
            inner: match sm.subcommand() {
                Some(("leaf", lm)) => Deep::Leaf { x: one(lm, "x") },
                Some(("unit", _)) => Deep::Unit,
                other => panic!("harness: unexpected nested subcommand {:?}", other.map(|o| o.0)),
            },
        }),
        Some((ext, sm)) => {
            let mut v = vec![OsString::from(ext)];
            v.extend(sm.get_many::<OsString>("").into_iter().flatten().cloned());
            Some(Sub::Ext(v))
        }
    }
}
fn sub_pieces(s: &Sub) -> Vec<String> {
    match s {
        Sub::Add { name, force } => {
            let mut v = vec!["add".to_string()];
            if *force {
                v.push("-f".into());
            }
            v.push(name.clone());
            v
        }
        Sub::Remove(r) => {
            let mut v = vec!["remove".to_string()];
            if r.recursive {
                v.push("--recursive".into());
            }
            v.push(r.target.clone());
            v
        }
        Sub::Nested { inner } => match inner {
            Deep::Leaf { x } => {
                let mut v = vec!["nested".to_string(), "leaf".into()];
                if let Some(x) = x {
                    v.push(format!("--x={}", x));
                }
                v
            }
            Deep::Unit => vec!["nested".into(), "unit".into()],
        },
        Sub::Remote(Deep2::Fetch { all }) => {
            let mut v = vec!["remote".to_string(), "fetch".into()];
            if *all {
                v.push("--all".into());
            }
            v
        }
        Sub::Remote(Deep2::Prune) => vec!["remote".into(), "prune".into()],
        Sub::Ext(v) => v.iter().map(|x| x.to_string_lossy().into_owned()).collect(),
    }
}
fn arb_sub(rng: &mut Rng) -> Sub {
    match rng.below(7) {
        5 => Sub::Remote(Deep2::Fetch { all: rng.coin() }),
        6 => Sub::Remote(Deep2::Prune),
        0 => Sub::Add { name: word(rng), force: rng.coin() },
        1 => Sub::Remove(RemoveArgs { recursive: rng.coin(), target: word(rng) }),
        2 => Sub::Nested { inner: Deep::Leaf { x: opt(rng, |r| r.below(200) as i8) } },
        3 => Sub::Nested { inner: Deep::Unit },
        _ => Sub::Ext(std::iter::once(OsString::from(format!("ext{}", rng.below(10)))).chain(vecn(rng, 0, 3, |r| OsString::from(format!("--{}", word(r))))).collect()),
    }
}
impl Corpus for G {
    const NAME: &'static str = "G(flatten,global,Option<subcommand>,nested,external)";
    fn extract(m: &ArgMatches) -> Self {
        G { inner: extract_inner(m), g: m.get_flag("g"), cmd: extract_sub(m) }
    }
    fn pieces(&self) -> Vec<(&'static str, Vec<String>)> {
        vec![
            ("level", self.inner.level.iter().map(|l| format!("--level={}", l)).collect()),
            ("tag", self.inner.tag.iter().flat_map(|t| ["--tag".to_string(), t.clone()]).collect()),
            ("g", if self.g { vec!["--g".into()] } else { vec![] }),
            ("cmd", self.cmd.iter().flat_map(sub_pieces).collect()),
        ]
    }
    fn arbitrary(rng: &mut Rng) -> Self {
        G { inner: Inner { level: opt(rng, |r| r.below(1000) as u32), tag: vecn(rng, 0, 2, word) }, g: rng.coin(), cmd: opt(rng, arb_sub) }
    }
    fn fields(&self) -> Vec<(&'static str, String)> {
        vec![("level", format!("{:?}", self.inner.level)), ("tag", format!("{:?}", self.inner.tag)), ("g", format!("{:?}", self.g)), ("cmd", format!("{:?}", self.cmd))]
    }
    const UPDATABLE: bool = false;
}

// ------------------------------------------------------------------ L: required subcommand, kebab names

#[derive(Subcommand, Clone, Debug, PartialEq)]
pub enum Sub2 {
    #[command(name = "do-it")]
    DoIt {
        #[arg(long)]
        dry_run: bool,
    },
    ShowAll {
        #[arg(long, value_enum, default_value_t = Mode::Fast)]
        mode: Mode,
    },
}
#[derive(Parser, Clone, Debug, PartialEq)]
#[command(name = "l")]
pub struct L {
    #[arg(short, long, action = clap::ArgAction::Count)]
    verbose: u8,
    #[command(subcommand)]
    cmd: Sub2,
}
impl Corpus for L {
    const NAME: &'static str = "L(required subcommand,kebab-case,default enum)";
    fn extract(m: &ArgMatches) -> Self {
        L {
            verbose: m.get_count("verbose"),
            cmd: match m.subcommand() {
                Some(("do-it", sm)) => Sub2::DoIt { dry_run: sm.get_flag("dry_run") },
                Some(("show-all", sm)) => Sub2::ShowAll { mode: one(sm, "mode").unwrap() },
                other => panic!("harness: unexpected subcommand {:?}", other.map(|o| o.0)),
            },
        }
    }
    fn pieces(&self) -> Vec<(&'static str, Vec<String>)> {
        vec![
            ("verbose", (0..self.verbose).map(|_| "-v".to_string()).collect()),
            (
                "cmd",
                match &self.cmd {
                    Sub2::DoIt { dry_run } => {
                        let mut v = vec!["do-it".to_string()];
                        if *dry_run {
                            v.push("--dry-run".into());
                        }
                        v
                    }
                    Sub2::ShowAll { mode } => vec!["show-all".into(), "--mode".into(), mode.print()],
                },
            ),
        ]
    }
    fn arbitrary(rng: &mut Rng) -> Self {
        L { verbose: rng.below(3) as u8, cmd: if rng.coin() { Sub2::DoIt { dry_run: rng.coin() } } else { Sub2::ShowAll { mode: Mode::arb(rng) } } }
    }
    fn fields(&self) -> Vec<(&'static str, String)> {
        vec![("verbose", format!("{:?}", self.verbose)), ("cmd", format!("{:?}", self.cmd))]
    }
    const UPDATABLE: bool = false;
}

// ------------------------------------------------------------------ N: optional subcommand whose enum has no external variant
// (with an external_subcommand variant `has_subcommand` is true for every name, which masks its table)

#[derive(Subcommand, Clone, Debug, PartialEq)]
pub enum SubN {
    Status {
        #[arg(long)]
        short: bool,
    },
    #[command(subcommand)]
    Remote(Deep2),
    #[command(flatten)]
    Flat(Deep),
}
#[derive(Parser, Clone, Debug, PartialEq)]
#[command(name = "n")]
pub struct N {
    #[arg(long)]
    verbose: bool,
    #[command(subcommand)]
    cmd: Option<SubN>,
}
impl Corpus for N {
    const NAME: &'static str = "N(Option<subcommand> without external,tuple subcommand variant,flattened enum)";
    fn extract(m: &ArgMatches) -> Self {
        N {
            verbose: m.get_flag("verbose"),
            cmd: match m.subcommand() {
                None => None,
                Some(("status", sm)) => Some(SubN::Status { short: sm.get_flag("short") }),
                Some(("remote", sm)) => Some(SubN::Remote(match sm.subcommand() {
                    Some(("fetch", fm)) => Deep2::Fetch { all: fm.get_flag("all") },
                    Some(("prune", _)) => Deep2::Prune,
                    other => panic!("harness: unexpected remote subcommand {:?}", other.map(|o| o.0)),
                })),
                Some(("leaf", lm)) => Some(SubN::Flat(Deep::Leaf { x: one(lm, "x") })),
                Some(("unit", _)) => Some(SubN::Flat(Deep::Unit)),
                other => panic!("harness: unexpected subcommand {:?}", other.map(|o| o.0)),
            },
        }
    }
    fn pieces(&self) -> Vec<(&'static str, Vec<String>)> {
        vec![
            ("verbose", if self.verbose { vec!["--verbose".into()] } else { vec![] }),
            (
                "cmd",
                match &self.cmd {
                    None => vec![],
                    Some(SubN::Status { short }) => {
                        let mut v = vec!["status".to_string()];
                        if *short {
                            v.push("--short".into());
                        }
                        v
                    }
                    Some(SubN::Remote(Deep2::Fetch { all })) => {
                        let mut v = vec!["remote".to_string(), "fetch".into()];
                        if *all {
                            v.push("--all".into());
                        }
                        v
                    }
                    Some(SubN::Remote(Deep2::Prune)) => vec!["remote".into(), "prune".into()],
                    Some(SubN::Flat(Deep::Leaf { x })) => {
                        let mut v = vec!["leaf".to_string()];
                        if let Some(x) = x {
                            v.push(format!("--x={}", x));
                        }
                        v
                    }
                    Some(SubN::Flat(Deep::Unit)) => vec!["unit".into()],
                },
            ),
        ]
    }
    fn arbitrary(rng: &mut Rng) -> Self {
        N {
            verbose: rng.coin(),
            cmd: match rng.below(6) {
                0 => None,
                1 => Some(SubN::Status { short: rng.coin() }),
                2 => Some(SubN::Remote(Deep2::Fetch { all: rng.coin() })),
                3 => Some(SubN::Remote(Deep2::Prune)),
                4 => Some(SubN::Flat(Deep::Leaf { x: opt(rng, |r| r.below(100) as i8) })),
                _ => Some(SubN::Flat(Deep::Unit)),
            },
        }
    }
    fn fields(&self) -> Vec<(&'static str, String)> {
        vec![("verbose", format!("{:?}", self.verbose)), ("cmd", format!("{:?}", self.cmd))]
    }
    const UPDATABLE: bool = false;
}

// ------------------------------------------------------------------ driver

fn argv_of<T: Corpus>(v: &T) -> Vec<String> {
    let mut a = vec![T::NAME.split('(').next().unwrap().to_lowercase()];
    for (_, toks) in v.pieces() {
        a.extend(toks);
    }
    a
}

fn mutate(rng: &mut Rng, argv: &[String]) -> Vec<String> {
    let mut a = argv.to_vec();
    for _ in 0..rng.range(1, 2) {
        match rng.below(7) {
            0 if a.len() > 1 => {
                let i = rng.range(1, a.len() - 1);
                a.remove(i);
            }
            1 => {
                let i = rng.range(1, a.len());
                a.insert(i, "--bogus".into());
            }
            2 if a.len() > 1 => {
                let i = rng.range(1, a.len() - 1);
                let t = a[i].clone();
                a.insert(i, t);
            }
            3 => {
                let i = rng.range(1, a.len());
                a.insert(i, rng.pick(&["-h", "--help", "-V", "--", "-", "", "999999999999", "x=y"]).to_string());
            }
            4 if a.len() > 2 => {
                let i = rng.range(1, a.len() - 2);
                a.swap(i, i + 1);
            }
            5 if a.len() > 1 => {
                let i = rng.range(1, a.len() - 1);
                a[i] = format!("{}x", a[i]);
            }
            _ => a.push(word(rng)),
        }
    }
    a
}

pub fn check<T: Corpus>(rng: &mut Rng, st: &mut Stats) {
    let tn = T::NAME;
    st.count(&format!("type.{}", tn.split('(').next().unwrap()));
    // ---- round trip
    let v = T::arbitrary(rng);
    let argv = argv_of(&v);
    st.eval();
    st.nontrivial(mix(hash_str(tn), hash_str(&format!("{:?}", argv))));
    st.sample(|| format!("{} value {:?} -> argv {:?}", tn, v, argv));
    match catch(|| T::try_parse_from(argv.clone())) {
        Err(p) => {
            st.violation(format!("panic:derive-parse@{}", p.loc), format!("{} | {} argv={:?}", p.msg, tn, argv));
            return;
        }
        Ok(Err(e)) => st.violation("c15:roundtrip-rejected", format!("{}: printing {:?} gives {:?}, rejected with {:?}", tn, v, argv, e.kind())),
        Ok(Ok(back)) => {
            st.count("roundtrip.ok");
            if back != v {
                st.violation("c15:roundtrip-differs", format!("{}: {:?} -> {:?} -> {:?}", tn, v, argv, back));
            }
        }
    }
    // ---- parse == command + extract (valid and invalid lines)
    for k in 0..4 {
        let line = if k == 0 { argv.clone() } else { mutate(rng, &argv) };
        st.eval();
        let via_derive = catch(|| T::try_parse_from(line.clone()));
        let via_cmd = catch(|| T::command().try_get_matches_from(line.clone()));
        match (via_derive, via_cmd) {
            (Err(p), _) | (_, Err(p)) => {
                if p.loc.starts_with("verif:") {
                    st.harness_errors.push(format!("{} {}", p.loc, p.msg));
                } else {
                    st.violation(format!("panic:derive@{}", p.loc), format!("{} | {} line={:?}", p.msg, tn, line));
                }
            }
            (Ok(Ok(val)), Ok(Ok(m))) => {
                st.count("agree.ok");
                match catch(|| T::extract(&m)) {
                    Ok(ex) => {
                        if ex != val {
                            st.violation("c15:field-extraction-differs", format!("{}: line {:?}: derived {:?} vs command+extract {:?}", tn, line, val, ex));
                        }
                    }
                    Err(p) => st.violation(format!("panic:extract@{}", p.loc), format!("{} | {} line={:?}", p.msg, tn, line)),
                }
                // FromArgMatches on the command's matches gives the same value too
                if let Ok(Ok(v2)) = catch(|| T::from_arg_matches(&m)) {
                    if v2 != val {
                        st.violation("c15:from_arg_matches-differs", format!("{}: line {:?}: {:?} vs {:?}", tn, line, val, v2));
                    }
                }
            }
            (Ok(Err(e1)), Ok(Err(e2))) => {
                st.count("agree.err");
                if e1.kind() != e2.kind() {
                    st.violation("c15:error-kind-differs", format!("{}: line {:?}: derive {:?} vs command {:?}", tn, line, e1.kind(), e2.kind()));
                }
            }
            (Ok(Ok(val)), Ok(Err(e))) => st.violation("c15:derive-accepts-command-rejects", format!("{}: line {:?}: {:?} vs {:?}", tn, line, val, e.kind())),
            (Ok(Err(e)), Ok(Ok(_))) => {
                // the derive layer may add its own checks only through the command; a difference is a defect
                if e.kind() != ErrorKind::DisplayHelp {
                    st.violation("c15:derive-rejects-command-accepts", format!("{}: line {:?}: {:?}", tn, line, e.kind()));
                }
            }
        }
    }
    // ---- update frame
    if T::UPDATABLE {
        let x = T::arbitrary(rng);
        let y = T::arbitrary(rng);
        let pieces = y.pieces();
        let mut named: Vec<&'static str> = vec![];
        let mut uargv = vec!["prog".to_string()];
        for (id, toks) in &pieces {
            if !toks.is_empty() && rng.coin() {
                named.push(id);
                uargv.extend(toks.iter().cloned());
            }
        }
        st.eval();
        let mut updated = x.clone();
        match catch(|| updated.try_update_from(uargv.clone())) {
            Err(p) => st.violation(format!("panic:update@{}", p.loc), format!("{} | {} argv={:?}", p.msg, tn, uargv)),
            Ok(Err(e)) => st.violation("c15:update-rejected", format!("{}: update with {:?} rejected: {:?}", tn, uargv, e.kind())),
            Ok(Ok(())) => {
                st.count("update.ok");
                let before = x.fields();
                let after = updated.fields();
                let want = y.fields();
                let um = T::command().ignore_errors(true).try_get_matches_from(uargv.clone()).ok();
                for ((id, b), ((_, a), (_, w))) in before.iter().zip(after.iter().zip(want.iter())) {
                    if named.contains(id) {
                        if a != w {
                            st.violation("c15:update:named-field-wrong", format!("{}: field {} after update {:?} is {} expected {} (was {})", tn, id, uargv, a, w, b));
                        }
                    } else if a != b {
                        st.count("update.unnamed-field-changed");
                        // discriminating facts for the known finding: the argument is default-sourced
                        // in the update's matches (explicit or implicit default)
                        let defaulted = um.as_ref().map(|m| m.value_source(id) == Some(ValueSource::DefaultValue)).unwrap_or(false);
                        let sig = if defaulted { "c15:update:unnamed-field-reset-to-default" } else { "c15:update:unnamed-field-changed" };
                        st.violation(sig, format!("{}: field {} was {} and became {} although {:?} does not name it", tn, id, b, a, uargv));
                    } else {
                        st.count("update.unnamed-field-kept");
                    }
                }
            }
        }
    }
}

fn value_enum(st: &mut Stats) {
    let variants = Mode::value_variants();
    let mut seen = std::collections::BTreeSet::new();
    for v in variants {
        st.eval();
        let Some(pv) = v.to_possible_value() else {
            st.count("value_enum.skipped-variant");
            continue;
        };
        for name in pv.get_name_and_aliases() {
            st.count("value_enum.names");
            if !seen.insert(name.to_string()) {
                st.violation("c15:value_enum:duplicate-name", format!("{:?} names two variants", name));
            }
            // the derived argument parser accepts the name too (hidden variants included)
            match catch(|| B::try_parse_from(["b", "--req", "x", "--mode", name])) {
                Ok(Ok(b)) if b.mode == Some(*v) => st.count("value_enum.parsed-through-argument"),
                other => st.violation("c15:value_enum:name-rejected-by-argument-parser", format!("--mode {:?} gives {:?}, expected {:?}", name, other.map(|r| r.map(|b| b.mode).map_err(|e| e.kind())).map_err(|p| p.msg), v)),
            }
            for ic in [false, true] {
                match Mode::from_str(name, ic) {
                    Ok(back) if back == *v => {}
                    other => st.violation("c15:value_enum:name-does-not-map-back", format!("{:?} (ignore_case={}) -> {:?}, expected {:?}", name, ic, other, v)),
                }
            }
            match Mode::from_str(&name.to_uppercase(), true) {
                Ok(back) if back == *v => {}
                other => st.violation("c15:value_enum:ignore-case", format!("{:?} upper-cased with ignore_case -> {:?}, expected {:?}", name, other, v)),
            }
            if name.to_uppercase() != name {
                if let Ok(b) = Mode::from_str(&name.to_uppercase(), false) {
                    st.violation("c15:value_enum:case-sensitive-accepts", format!("{:?} upper-cased accepted without ignore_case as {:?}", name, b));
                }
            }
        }
    }
    if Mode::from_str("internal", true).is_ok() {
        st.violation("c15:value_enum:skipped-variant-reachable", "`internal` parses although the variant is #[value(skip)]".to_string());
    }
}

// ------------------------------------------------------------------ update frame over subcommand fields
//
// Variants hold optional fields only (a struct-field subcommand keeps its variants' required
// arguments required during an update, and bool/counter/defaulted fields fall under F9).

#[derive(Subcommand, Clone, Debug, PartialEq)]
pub enum SubU {
    Add {
        #[arg(long)]
        a: Option<u32>,
        #[arg(long)]
        b: Option<u32>,
        #[arg(long)]
        t: Vec<String>,
    },
    Del {
        #[arg(long)]
        k: Option<String>,
        #[arg(long)]
        n: Option<i16>,
    },
}
#[derive(Parser, Clone, Debug, PartialEq)]
#[command(name = "u")]
pub struct U {
    #[arg(long)]
    top: Option<u32>,
    #[command(subcommand)]
    cmd: Option<SubU>,
}
#[derive(Parser, Clone, Debug, PartialEq)]
#[command(name = "u2")]
pub struct U2 {
    #[arg(long)]
    top: Option<u32>,
    #[command(subcommand)]
    cmd: SubU,
}

fn arb_subu(rng: &mut Rng) -> SubU {
    if rng.coin() {
        SubU::Add { a: opt(rng, |r| r.below(100) as u32), b: opt(rng, |r| r.below(100) as u32), t: vecn(rng, 0, 2, word) }
    } else {
        SubU::Del { k: opt(rng, word), n: opt(rng, |r| r.below(100) as i16 - 50) }
    }
}

/// (tokens naming a random subset of the variant's set fields, the variant restricted to that subset)
fn subu_subset(rng: &mut Rng, y: &SubU) -> (Vec<String>, SubU) {
    match y {
        SubU::Add { a, b, t } => {
            let (ka, kb, kt) = (rng.coin(), rng.coin(), rng.coin());
            let mut v = vec!["add".to_string()];
            let na = a.filter(|_| ka);
            let nb = b.filter(|_| kb);
            let nt = if kt { t.clone() } else { vec![] };
            if let Some(a) = na {
                v.push(format!("--a={}", a));
            }
            if let Some(b) = nb {
                v.push(format!("--b={}", b));
            }
            for x in &nt {
                v.push("--t".into());
                v.push(x.clone());
            }
            (v, SubU::Add { a: na, b: nb, t: nt })
        }
        SubU::Del { k, n } => {
            let (kk, kn) = (rng.coin(), rng.coin());
            let mut v = vec!["del".to_string()];
            let nk = k.clone().filter(|_| kk);
            let nn = n.filter(|_| kn);
            if let Some(k) = &nk {
                v.push(format!("--k={}", k));
            }
            if let Some(n) = nn {
                v.push(format!("--n={}", n));
            }
            (v, SubU::Del { k: nk, n: nn })
        }
    }
}

/// the frame rule: same variant -> named fields replaced, the others kept; another variant -> the
/// value printed on the line
fn subu_expected(held: Option<&SubU>, named: &SubU) -> SubU {
    match (held, named) {
        (Some(SubU::Add { a, b, t }), SubU::Add { a: na, b: nb, t: nt }) => SubU::Add { a: na.or(*a), b: nb.or(*b), t: if nt.is_empty() { t.clone() } else { nt.clone() } },
        (Some(SubU::Del { k, n }), SubU::Del { k: nk, n: nn }) => SubU::Del { k: nk.clone().or(k.clone()), n: nn.or(*n) },
        _ => named.clone(),
    }
}

fn update_subcommands(rng: &mut Rng, st: &mut Stats) {
    st.count("type.U");
    let top_x = opt(rng, |r| r.below(1000) as u32);
    let top_y = opt(rng, |r| r.below(1000) as u32);
    let held = arb_subu(rng);
    let name_top = rng.coin();
    let name_sub = rng.chance(3, 4);
    let y = arb_subu(rng);
    let mut uargv = vec!["prog".to_string()];
    if let (true, Some(t)) = (name_top, top_y) {
        uargv.push(format!("--top={}", t));
    }
    let want_top = if name_top && top_y.is_some() { top_y } else { top_x };
    let (toks, named) = subu_subset(rng, &y);
    if name_sub {
        uargv.extend(toks);
    }
    let same_variant = std::mem::discriminant(&held) == std::mem::discriminant(&y);
    let stratum = if !name_sub {
        "no-subcommand-named"
    } else if same_variant {
        "same-variant"
    } else {
        "other-variant"
    };
    st.eval();
    st.nontrivial(mix(hash_str("U"), hash_str(&format!("{:?}{:?}{:?}", held, top_x, uargv))));
    // Option<SubU>, held Some / None
    let held_opt = if rng.chance(3, 4) { Some(held.clone()) } else { None };
    let mut u = U { top: top_x, cmd: held_opt.clone() };
    match catch(|| u.try_update_from(uargv.clone())) {
        Err(p) => st.violation(format!("panic:update@{}", p.loc), format!("{} | U argv={:?}", p.msg, uargv)),
        Ok(Err(e)) => {
            // an update that names no subcommand while none is held has nothing to build one from
            if !(held_opt.is_none() && !name_sub) {
                st.violation("c15:update-rejected", format!("U: update of {:?} with {:?} rejected: {:?}", held_opt, uargv, e.kind()));
            }
        }
        Ok(Ok(())) => {
            st.count(&format!("update.sub.option.{}", stratum));
            let want = U { top: want_top, cmd: if name_sub { Some(subu_expected(held_opt.as_ref(), &named)) } else { held_opt.clone() } };
            if u != want {
                let sig = if u.cmd != want.cmd { "c15:update:subcommand-field-wrong" } else { "c15:update:named-field-wrong" };
                st.violation(format!("{}:{}", sig, stratum), format!("U: {:?} updated with {:?} is {:?}, expected {:?}", U { top: top_x, cmd: held_opt.clone() }, uargv, u, want));
            }
        }
    }
    // plain SubU field
    let mut u2 = U2 { top: top_x, cmd: held.clone() };
    st.eval();
    match catch(|| u2.try_update_from(uargv.clone())) {
        Err(p) => st.violation(format!("panic:update@{}", p.loc), format!("{} | U2 argv={:?}", p.msg, uargv)),
        Ok(Err(e)) => st.violation("c15:update-rejected", format!("U2: update of {:?} with {:?} rejected: {:?}", held, uargv, e.kind())),
        Ok(Ok(())) => {
            st.count(&format!("update.sub.plain.{}", stratum));
            let want = U2 { top: want_top, cmd: if name_sub { subu_expected(Some(&held), &named) } else { held.clone() } };
            if u2 != want {
                let sig = if u2.cmd != want.cmd { "c15:update:subcommand-field-wrong" } else { "c15:update:named-field-wrong" };
                st.violation(format!("{}:{}", sig, stratum), format!("U2: {:?} updated with {:?} is {:?}, expected {:?}", U2 { top: top_x, cmd: held.clone() }, uargv, u2, want));
            }
        }
    }
}

// ------------------------------------------------------------------ update frame over an enum with flattened child enums

#[derive(Subcommand, Clone, Debug, PartialEq)]
pub enum SubV {
    Push {
        #[arg(long)]
        r: Option<u32>,
        #[arg(long)]
        j: Option<u32>,
    },
    Save {
        #[arg(long)]
        m: Option<String>,
    },
}

#[derive(Parser, Clone, Debug, PartialEq)]
#[command(name = "uf")]
pub enum UF {
    Status {
        #[arg(long)]
        limit: Option<u32>,
    },
    #[command(flatten)]
    A(SubU),
    #[command(flatten)]
    B(SubV),
}

fn arb_subv(rng: &mut Rng) -> SubV {
    if rng.coin() {
        SubV::Push { r: opt(rng, |r| r.below(100) as u32), j: opt(rng, |r| r.below(100) as u32) }
    } else {
        SubV::Save { m: opt(rng, word) }
    }
}

fn arb_uf(rng: &mut Rng) -> UF {
    match rng.below(3) {
        0 => UF::Status { limit: opt(rng, |r| r.below(100) as u32) },
        1 => UF::A(arb_subu(rng)),
        _ => UF::B(arb_subv(rng)),
    }
}

fn subv_subset(rng: &mut Rng, y: &SubV) -> (Vec<String>, SubV) {
    match y {
        SubV::Push { r, j } => {
            let (kr, kj) = (rng.coin(), rng.coin());
            let mut v = vec!["push".to_string()];
            let nr = r.filter(|_| kr);
            let nj = j.filter(|_| kj);
            if let Some(r) = nr {
                v.push(format!("--r={}", r));
            }
            if let Some(j) = nj {
                v.push(format!("--j={}", j));
            }
            (v, SubV::Push { r: nr, j: nj })
        }
        SubV::Save { m } => {
            let km = rng.coin();
            let mut v = vec!["save".to_string()];
            let nm = m.clone().filter(|_| km);
            if let Some(m) = &nm {
                v.push(format!("--m={}", m));
            }
            (v, SubV::Save { m: nm })
        }
    }
}

fn uf_expected(held: &UF, named: &UF) -> UF {
    match (held, named) {
        (UF::Status { limit }, UF::Status { limit: nl }) => UF::Status { limit: nl.or(*limit) },
        (UF::A(h), UF::A(n)) => UF::A(subu_expected(Some(h), n)),
        (UF::B(SubV::Push { r, j }), UF::B(SubV::Push { r: nr, j: nj })) => UF::B(SubV::Push { r: nr.or(*r), j: nj.or(*j) }),
        (UF::B(SubV::Save { m }), UF::B(SubV::Save { m: nm })) => UF::B(SubV::Save { m: nm.clone().or(m.clone()) }),
        _ => named.clone(),
    }
}

fn update_flattened_enums(rng: &mut Rng, st: &mut Stats) {
    st.count("type.UF");
    let held = arb_uf(rng);
    let y = arb_uf(rng);
    let (toks, named) = match &y {
        UF::Status { limit } => {
            let nl = limit.filter(|_| rng.coin());
            let mut v = vec!["status".to_string()];
            if let Some(l) = nl {
                v.push(format!("--limit={}", l));
            }
            (v, UF::Status { limit: nl })
        }
        UF::A(x) => {
            let (v, n) = subu_subset(rng, x);
            (v, UF::A(n))
        }
        UF::B(x) => {
            let (v, n) = subv_subset(rng, x);
            (v, UF::B(n))
        }
    };
    let mut uargv = vec!["prog".to_string()];
    uargv.extend(toks);
    let group = |u: &UF| match u {
        UF::Status { .. } => 0,
        UF::A(_) => 1,
        UF::B(_) => 2,
    };
    let stratum = match (group(&held), group(&y)) {
        (a, b) if a == b && uf_expected(&held, &named) != named => "same-variant",
        (a, b) if a == b => "same-child",
        (_, 0) => "to-own-variant",
        (0, _) => "own-variant-to-flattened-child",
        _ => "flattened-child-to-other-flattened-child",
    };
    st.eval();
    st.nontrivial(mix(hash_str("UF"), hash_str(&format!("{:?}{:?}", held, uargv))));
    let mut u = held.clone();
    match catch(|| u.try_update_from(uargv.clone())) {
        Err(p) => st.violation(format!("panic:update@{}", p.loc), format!("{} | UF argv={:?}", p.msg, uargv)),
        Ok(Err(e)) => st.violation("c15:update-rejected", format!("UF: update of {:?} with {:?} rejected: {:?}", held, uargv, e.kind())),
        Ok(Ok(())) => {
            st.count(&format!("update.flattened-enum.{}", stratum));
            let want = uf_expected(&held, &named);
            if u != want {
                st.violation(format!("c15:update:flattened-enum-wrong:{}", stratum), format!("UF: {:?} updated with {:?} is {:?}, expected {:?}", held, uargv, u, want));
            }
        }
    }
    // and the line parsed afresh is the named value
    st.eval();
    match catch(|| UF::try_parse_from(uargv.clone())) {
        Ok(Ok(v)) if v == named => st.count("parse.flattened-enum.ok"),
        other => st.violation("c15:flattened-enum-parse", format!("UF: {:?} parsed as {:?}, expected {:?}", uargv, other.map(|r| r.map_err(|e| e.kind())).map_err(|p| p.msg), named)),
    }
}

// ------------------------------------------------------------------ update frame over a boxed flattened struct with a required field

#[derive(Args, Clone, Debug, PartialEq)]
pub struct BoxedInner {
    #[arg(long)]
    req: String,
    #[arg(long)]
    num: u32,
    #[arg(long)]
    opt: Option<String>,
}

#[derive(Parser, Clone, Debug, PartialEq)]
#[command(name = "ub")]
pub struct UB {
    #[arg(long)]
    top: Option<u32>,
    #[command(flatten)]
    boxed: Box<BoxedInner>,
    #[command(flatten)]
    plain: PlainInner,
}

#[derive(Args, Clone, Debug, PartialEq)]
pub struct PlainInner {
    #[arg(long)]
    preq: String,
    #[arg(long)]
    popt: Option<u32>,
}

fn update_boxed_flatten(rng: &mut Rng, st: &mut Stats) {
    st.count("type.UB");
    let held = UB {
        top: opt(rng, |r| r.below(1000) as u32),
        boxed: Box::new(BoxedInner { req: word(rng), num: rng.below(1000) as u32, opt: opt(rng, word) }),
        plain: PlainInner { preq: word(rng), popt: opt(rng, |r| r.below(1000) as u32) },
    };
    let mut want = held.clone();
    let mut uargv = vec!["prog".to_string()];
    let mut named = vec![];
    if rng.coin() {
        let v = rng.below(1000) as u32;
        uargv.push(format!("--top={}", v));
        want.top = Some(v);
        named.push("top");
    }
    if rng.chance(1, 3) {
        let v = word(rng);
        uargv.push(format!("--req={}", v));
        want.boxed.req = v;
        named.push("req");
    }
    if rng.chance(1, 3) {
        let v = rng.below(1000) as u32;
        uargv.push(format!("--num={}", v));
        want.boxed.num = v;
        named.push("num");
    }
    if rng.coin() {
        let v = word(rng);
        uargv.push(format!("--opt={}", v));
        want.boxed.opt = Some(v);
        named.push("opt");
    }
    if rng.chance(1, 3) {
        let v = word(rng);
        uargv.push(format!("--preq={}", v));
        want.plain.preq = v;
        named.push("preq");
    }
    if rng.coin() {
        let v = rng.below(1000) as u32;
        uargv.push(format!("--popt={}", v));
        want.plain.popt = Some(v);
        named.push("popt");
    }
    let stratum = if named.contains(&"req") && named.contains(&"num") { "boxed-required-named" } else { "boxed-required-not-named" };
    st.eval();
    st.nontrivial(mix(hash_str("UB"), hash_str(&format!("{:?}{:?}", held, uargv))));
    let mut u = held.clone();
    match catch(|| u.try_update_from(uargv.clone())) {
        Err(p) => st.violation(format!("panic:update@{}", p.loc), format!("{} | UB argv={:?}", p.msg, uargv)),
        Ok(Err(e)) => st.violation(format!("c15:update-rejected:{}", stratum), format!("UB: update of {:?} with {:?} rejected: {:?}", held, uargv, e.kind())),
        Ok(Ok(())) => {
            st.count(&format!("update.flattened-struct.{}", stratum));
            if u != want {
                st.violation(format!("c15:update:flattened-struct-wrong:{}", stratum), format!("UB: {:?} updated with {:?} is {:?}, expected {:?}", held, uargv, u, want));
            }
        }
    }
}

// ------------------------------------------------------------------ optional flattened structs of one, one (flag) and two arguments

#[derive(Args, Clone, Debug, PartialEq)]
pub struct OneOpt {
    #[arg(long)]
    level: Option<u32>,
}
#[derive(Args, Clone, Debug, PartialEq)]
pub struct OneFlag {
    #[arg(long)]
    fast: bool,
}
#[derive(Args, Clone, Debug, PartialEq)]
pub struct TwoOpts {
    #[arg(long)]
    a: Option<u32>,
    #[arg(long)]
    b: Option<String>,
}
#[derive(Parser, Clone, Debug, PartialEq)]
#[command(name = "of")]
pub struct OF {
    #[arg(long)]
    top: Option<u32>,
    #[command(flatten)]
    one: Option<OneOpt>,
    #[command(flatten)]
    flag: Option<OneFlag>,
    #[command(flatten)]
    two: Option<TwoOpts>,
}

/// `Option<S>` of a flattened struct is Some exactly when one of S's arguments is on the line
fn optional_flatten(rng: &mut Rng, st: &mut Stats) {
    st.count("type.OF");
    let mut argv = vec!["prog".to_string()];
    let mut want = OF { top: None, one: None, flag: None, two: None };
    if rng.coin() {
        let v = rng.below(1000) as u32;
        argv.push(format!("--top={}", v));
        want.top = Some(v);
    }
    if rng.coin() {
        let v = rng.below(1000) as u32;
        argv.push(format!("--level={}", v));
        want.one = Some(OneOpt { level: Some(v) });
        st.count("optional-flatten.single-option-present");
    }
    if rng.coin() {
        argv.push("--fast".into());
        want.flag = Some(OneFlag { fast: true });
        st.count("optional-flatten.single-flag-present");
    }
    let (na, nb) = (rng.coin(), rng.coin());
    if na || nb {
        let mut t = TwoOpts { a: None, b: None };
        if na {
            let v = rng.below(1000) as u32;
            argv.push(format!("--a={}", v));
            t.a = Some(v);
        }
        if nb {
            let v = word(rng);
            argv.push(format!("--b={}", v));
            t.b = Some(v);
        }
        want.two = Some(t);
    }
    // (the order of the tokens on the line does not matter)
    let head = argv.remove(0);
    rng.shuffle(&mut argv);
    argv.insert(0, head);
    st.eval();
    st.nontrivial(mix(hash_str("OF"), hash_str(&format!("{:?}", argv))));
    match catch(|| OF::try_parse_from(argv.clone())) {
        Err(p) => st.violation(format!("panic:parse@{}", p.loc), format!("{} | OF argv={:?}", p.msg, argv)),
        Ok(Err(e)) => st.violation("c15:optional-flatten:rejected", format!("OF: {:?} rejected: {:?}", argv, e.kind())),
        Ok(Ok(v)) => {
            st.count("optional-flatten.ok");
            if v != want {
                let which = if v.one != want.one || v.flag != want.flag { "single-argument-struct" } else { "other" };
                st.violation(format!("c15:optional-flatten:wrong-value:{}", which), format!("OF: {:?} parsed as {:?}, expected {:?}", argv, v, want));
            }
        }
    }
}

pub fn case(seed: u64, st: &mut Stats) {
    let mut rng = Rng::new(seed);
    match rng.below(14) {
        13 => optional_flatten(&mut rng, st),
        12 => update_boxed_flatten(&mut rng, st),
        11 => update_flattened_enums(&mut rng, st),
        10 => check::<N>(&mut rng, st),
        9 => update_subcommands(&mut rng, st),
        0 => check::<A>(&mut rng, st),
        1 => check::<B>(&mut rng, st),
        2 => check::<C>(&mut rng, st),
        3 => check::<D>(&mut rng, st),
        4 => check::<E>(&mut rng, st),
        5 => check::<F>(&mut rng, st),
        6 => check::<G>(&mut rng, st),
        7 => check::<L>(&mut rng, st),
        _ => value_enum(st),
    }
}
