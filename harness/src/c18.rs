//! C18 — the dynamic completion engine never fails and only offers valid continuations.

use crate::core::*;
use crate::gen::*;
use crate::model::*;
use crate::spec::*;
use clap_complete::engine::{complete, CompletionCandidate};
use std::ffi::OsString;

fn run(cmd: &clap::Command, args: &[OsString], idx: usize) -> Result<Result<Vec<CompletionCandidate>, String>, Panic> {
    catch(|| {
        let mut c = cmd.clone();
        complete(&mut c, args.to_vec(), idx, None).map_err(|e| e.to_string())
    })
}

fn totality(rng: &mut Rng, st: &mut Stats) {
    // path-like value hints would read the file system; not part of the claim
    let Some((mut spec, _)) = crate::c01::gen_spec(rng, st) else { return };
    fn no_hints(c: &mut CmdSpec) {
        for a in c.args.iter_mut() {
            if let Some(h) = a.hint {
                if (2..=5).contains(&h) || h > 11 {
                    a.hint = None;
                }
            }
        }
        for s in c.subs.iter_mut() {
            no_hints(s);
        }
    }
    no_hints(&mut spec);
    let Ok(cmd) = gate(&spec) else { return };
    for _ in 0..3 {
        let args = hostile_argv(rng, &spec, 6);
        let idxs: Vec<usize> = (0..=args.len() + 1).collect();
        for idx in idxs {
            st.eval();
            let t0 = thread_cpu_ms();
            match run(&cmd, &args, idx) {
                Err(p) => {
                    st.violation(format!("panic:engine@{}", p.loc), format!("{} | args={} idx={} | spec={}", p.msg, show_argv(&args), idx, brief(&spec)));
                    return;
                }
                Ok(Ok(c)) => {
                    st.count("totality.candidates");
                    for x in &c {
                        let _ = (x.get_value(), x.get_help().map(|h| h.to_string()), x.get_id(), x.get_tag().map(|t| t.to_string()), x.get_display_order(), x.is_hide_set());
                    }
                }
                Ok(Err(e)) => {
                    st.count("totality.no-completion");
                    if !e.contains("no completion") {
                        st.violation("engine:unexpected-error", format!("{} | args={} idx={}", e, show_argv(&args), idx));
                    }
                }
            }
            if thread_cpu_ms() - t0 > 5000 {
                st.violation("slow:engine", format!("args={} idx={} | spec={}", show_argv(&args), idx, brief(&spec)));
            }
        }
        st.nontrivial(mix(hash_str(&format!("{:?}", spec)), hash_str(&show_argv(&args))));
    }
}

/// the level reached by the intent, with the globals it inherits
fn reached<'a>(c: &'a CmdSpec, li: &'a LevelIntent, inherited: Vec<&'a ArgSpec>) -> (&'a CmdSpec, &'a LevelIntent, Vec<&'a ArgSpec>) {
    match &li.sub {
        Some((si, ch)) => {
            let mut inh = inherited;
            for a in &c.args {
                if a.global {
                    inh.push(a);
                }
            }
            reached(&c.subs[*si], ch, inh)
        }
        None => (c, li, inherited),
    }
}

fn new_arg_may_start(c: &CmdSpec, li: &LevelIntent) -> bool {
    if li.external.is_some() {
        return false;
    }
    match li.items.last() {
        None | Some(Item::Flag { .. }) => true,
        Some(Item::Opt { arg, toks }) => {
            let a = &c.args[*arg];
            a.require_equals || toks.len() == a.eff_num_args().1
        }
        // (a final positional behind a still-open multi-valued one — the low-index shape — is a pending value too)
        Some(Item::Pos { arg, .. }) => {
            c.args[*arg].eff_num_args().1 == 1 && !c.args[*arg].last && !c.args[..*arg].iter().any(|p| p.is_positional() && p.eff_num_args().1 > 1)
        }
        Some(Item::Term { .. }) => true,
    }
}

fn soundness(rng: &mut Rng, st: &mut Stats) {
    let mut o = ConvOpts::full();
    o.globals = true;
    o.flag_subs = rng.chance(1, 4);
    o.last_pos = false;
    let mut spec = conv_cmd(rng, &o);
    // hidden items
    fn hide_some(rng: &mut Rng, c: &mut CmdSpec) {
        for a in c.args.iter_mut() {
            if rng.chance(1, 6) {
                a.hide = true;
            }
        }
        for s in c.subs.iter_mut() {
            if rng.chance(1, 6) {
                s.set(Setting::Hide);
            }
            hide_some(rng, s);
        }
    }
    hide_some(rng, &mut spec);
    let Ok(cmd) = gate(&spec) else {
        st.count("gate.rejected");
        return;
    };
    let io = IntentOpts::default();
    for _ in 0..3 {
        let intent = gen_intent(rng, &spec, &io);
        let (lvl, li, inherited) = reached(&spec, &intent, vec![]);
        // inside a multi-valued positional whose minimum is met an option may start but a
        // subcommand may not (the parser keeps reading values): candidates are judged there,
        // coverage is not
        let pos_open_min_met = li.external.is_none()
            && !lvl.has(Setting::SubcommandPrecedenceOverArg)
            && matches!(li.items.last(), Some(Item::Pos { arg, toks }) if {
                let a = &lvl.args[*arg];
                let (lo, hi) = a.eff_num_args();
                hi > 1 && toks.len() >= lo && !a.allow_hyphen && !a.allow_negative && !a.last && a.terminator.is_none()
            });
        let completeness = new_arg_may_start(lvl, li);
        if !completeness && !pos_open_min_met {
            st.count("premise.pending-value");
            continue;
        }
        if !completeness {
            st.count("stratum.inside-multi-valued-positional");
        }
        let depth = {
            let mut d = 0;
            let mut cur = &intent;
            while let Some((_, ch)) = &cur.sub {
                d += 1;
                cur = ch;
            }
            d
        };
        let style = Style::random(rng);
        let r = render(rng, &spec, &intent, &style);
        if r.argv.iter().any(|t| t == "--") {
            continue;
        }
        // spellings the engine's own walk does not follow (recorded as known findings, keyed apart)
        let blind: Option<&str> = if r.features.iter().any(|f| f.starts_with("sub.short-flag") || f.starts_with("sub.long-flag") || f.starts_with("cluster.child") || f.starts_with("cluster.parent")) {
            Some("after-flag-subcommand")
        } else if r.features.iter().any(|f| *f == "prefix.long" || *f == "sub.prefix") {
            Some("after-inferred-prefix")
        } else if r.features.iter().any(|f| *f == "value.negative-number") {
            Some("after-negative-number-value")
        } else if r.features.iter().any(|f| *f == "terminator") {
            Some("after-value-terminator")
        } else if {
            // an option value spelled like a subcommand of its level
            fn has(c: &CmdSpec, li: &LevelIntent) -> bool {
                let names: Vec<&String> = c.subs.iter().flat_map(|s| std::iter::once(&s.name).chain(s.aliases.iter().map(|(a, _)| a))).collect();
                li.items.iter().any(|it| matches!(it, Item::Opt { toks, .. } if toks.iter().any(|t| names.contains(&t))))
                    || li.sub.as_ref().map(|(si, ch)| has(&c.subs[*si], ch)).unwrap_or(false)
            }
            has(&spec, &intent)
        } {
            Some("after-value-spelled-like-subcommand")
        } else if r.features.iter().any(|f| *f == "alias.long-hidden" || *f == "alias.short-hidden") {
            // (monitored, silent so far: the least specific stratum goes last)
            Some("after-hidden-alias")
        } else {
            None
        };
        let flag_sub_spelling = blind.is_some();
        match blind {
            Some(b) => st.count(&format!("stratum.{}", b)),
            None => st.count("stratum.canonical-spellings"),
        }
        // the prefix must itself be understood the same way by the real parser (sanity)
        let all_args: Vec<&ArgSpec> = lvl.args.iter().chain(inherited.iter().copied()).collect();
        // cursor words
        let mut words: Vec<String> = vec!["".into(), "-".into(), "--".into()];
        for a in &all_args {
            if let Some(l) = &a.long {
                let k = rng.range(1, l.chars().count());
                words.push(format!("--{}", l.chars().take(k).collect::<String>()));
            }
        }
        for s in &lvl.subs {
            let k = rng.range(1, s.name.chars().count());
            words.push(s.name.chars().take(k).collect());
            // a prefix of an alias as well (hidden ones must stay behind visible candidates)
            if let Some((al, _)) = s.aliases.first() {
                let k = rng.range(1, al.chars().count());
                words.push(al.chars().take(k).collect());
            }
        }
        words.push("--zz".into());
        words.push("zz".into());
        for w in words {
            let mut args = r.argv.clone();
            args.push(w.clone().into());
            let idx = args.len() - 1;
            st.eval();
            st.nontrivial(mix(hash_str(&format!("{:?}", spec)), hash_str(&show_argv(&args))));
            st.sample(|| format!("args={} idx={}", show_argv(&args), idx));
            let ctx = || format!("args={} idx={} | level {:?} | spec={}", show_argv(&args), idx, lvl.name, brief(&spec));
            let cands = match run(&cmd, &args, idx) {
                Err(p) => {
                    st.violation(format!("panic:engine@{}", p.loc), format!("{} | {}", p.msg, ctx()));
                    return;
                }
                Ok(Err(e)) => {
                    let sfx = blind.map(|b| format!(":{}", b)).unwrap_or_default();
                    st.violation(format!("engine:no-completion-where-argument-may-start{}", sfx), format!("{} | {}", e, ctx()));
                    continue;
                }
                Ok(Ok(c)) => c,
            };
            st.count("soundness.queries");
            let suffix = match blind {
                Some(b) => format!(":{}", b),
                None => String::new(),
            };
            let any_visible = cands.iter().any(|c| !c.is_hide_set());
            // hidden by the *definition* (not by the candidate's own flag): a hidden alias of a
            // subcommand / a hidden subcommand / a hidden long alias / a hidden argument
            let def_hidden = |v: &str, id: &str| -> bool {
                if let Some(sname) = id.strip_prefix("command::") {
                    lvl.subs.iter().any(|s| s.name == sname && (s.has(Setting::Hide) || s.aliases.iter().any(|(a, vis)| a == v && !*vis)))
                } else if let Some(aid) = id.strip_prefix("arg::") {
                    all_args.iter().any(|a| a.id == aid && (a.hide || a.aliases.iter().any(|(l, vis)| format!("--{}", l) == v && !*vis)))
                } else {
                    false
                }
            };
            let any_def_visible = cands.iter().any(|c| c.get_id().map(|id| !def_hidden(&c.get_value().to_string_lossy(), id)).unwrap_or(true));
            if any_def_visible {
                if let Some(c) = cands.iter().find(|c| c.get_id().map(|id| def_hidden(&c.get_value().to_string_lossy(), id)).unwrap_or(false)) {
                    st.violation(
                        format!("engine:hidden-offered-next-to-visible{}", suffix),
                        format!("{} ({}) is hidden by the definition but offered next to visible candidates {:?} | {}", c.get_value().to_string_lossy(), c.get_id().unwrap(), cands.iter().map(|c| c.get_value().to_string_lossy().into_owned()).collect::<Vec<_>>(), ctx()),
                    );
                    continue;
                }
            }
            for c in &cands {
                let v = c.get_value().to_string_lossy().into_owned();
                let Some(id) = c.get_id() else { continue };
                if c.is_hide_set() && any_visible {
                    st.violation(format!("engine:hidden-offered-next-to-visible{}", suffix), format!("{} ({}) | {}", v, id, ctx()));
                    break;
                }
                if !v.starts_with(w.as_str()) {
                    st.violation(format!("engine:candidate-does-not-extend-word{}", suffix), format!("{:?} for word {:?} | {}", v, w, ctx()));
                    break;
                }
                let mut probe: Vec<OsString> = r.argv.clone();
                if let Some(aid) = id.strip_prefix("arg::") {
                    if aid == "help" || aid == "version" {
                        continue;
                    }
                    let Some(a) = all_args.iter().find(|a| a.id == aid) else {
                        st.violation(format!("engine:candidate-names-undefined{}", suffix), format!("{} ({}) is not an argument of level {:?} | {}", v, id, lvl.name, ctx()));
                        break;
                    };
                    st.count("soundness.arg-candidates");
                    probe.push(v.clone().into());
                    if a.takes_values() {
                        if a.require_equals {
                            probe.pop();
                            probe.push(format!("{}=1", v).into());
                        } else {
                            for _ in 0..a.eff_num_args().0.max(1) {
                                probe.push("1".into());
                            }
                        }
                    }
                } else if let Some(sname) = id.strip_prefix("command::") {
                    if sname == "help" {
                        continue;
                    }
                    if !lvl.subs.iter().any(|s| s.name == sname) {
                        st.violation(format!("engine:candidate-names-undefined{}", suffix), format!("{} ({}) is not a subcommand of level {:?} | {}", v, id, lvl.name, ctx()));
                        break;
                    }
                    st.count("soundness.command-candidates");
                    probe.push(v.clone().into());
                } else {
                    continue;
                }
                match catch(|| cmd.clone().try_get_matches_from(probe.clone())) {
                    Err(p) => {
                        st.violation(format!("panic:parse@{}", p.loc), format!("{} | probe={}", p.msg, show_argv(&probe)));
                        break;
                    }
                    Ok(Err(e)) if matches!(e.kind(), clap::error::ErrorKind::UnknownArgument | clap::error::ErrorKind::InvalidSubcommand) => {
                        st.violation(
                            format!("engine:candidate-rejected-by-parser{}", suffix),
                            format!("{} ({}) -> {:?} for probe {} | {}", v, id, e.kind(), show_argv(&probe), ctx()),
                        );
                        break;
                    }
                    Ok(Ok(m)) => {
                        // accepted *as such*: the subcommand is dispatched / the option is set at that level
                        let mut lm = &m;
                        let mut ok = true;
                        for _ in 0..depth {
                            match lm.subcommand() {
                                Some((_, sm)) => lm = sm,
                                None => {
                                    ok = false;
                                    break;
                                }
                            }
                        }
                        if ok {
                            if let Some(sname) = id.strip_prefix("command::") {
                                st.count("soundness.command-dispatch-checked");
                                if lm.subcommand_name() != Some(sname) {
                                    st.violation(
                                        format!("engine:subcommand-candidate-not-dispatched{}", suffix),
                                        format!("{} ({}) parses, but level {:?} dispatches {:?} for probe {} | {}", v, id, lvl.name, lm.subcommand_name(), show_argv(&probe), ctx()),
                                    );
                                    break;
                                }
                            } else if let Some(aid) = id.strip_prefix("arg::") {
                                st.count("soundness.option-source-checked");
                                if lm.try_contains_id(aid).is_ok() && lm.value_source(aid) != Some(clap::parser::ValueSource::CommandLine) {
                                    st.violation(
                                        format!("engine:option-candidate-not-read-as-option{}", suffix),
                                        format!("{} ({}) parses, but {} is not set from the command line at level {:?} for probe {} | {}", v, id, aid, lvl.name, show_argv(&probe), ctx()),
                                    );
                                    break;
                                }
                            }
                        }
                    }
                    _ => {}
                }
            }
            // completeness
            if !completeness {
                continue;
            }
            let dashy = w.is_empty() || w.starts_with('-');
            if dashy && !flag_sub_spelling {
                for a in &all_args {
                    if a.hide {
                        continue;
                    }
                    let mut spellings: Vec<String> = vec![];
                    if let Some(l) = &a.long {
                        spellings.push(format!("--{}", l));
                    }
                    for (al, vis) in &a.aliases {
                        if *vis {
                            spellings.push(format!("--{}", al));
                        }
                    }
                    if spellings.iter().any(|s| s.starts_with(w.as_str())) {
                        st.count("completeness.args-expected");
                        let want = format!("arg::{}", a.id);
                        if !cands.iter().any(|c| c.get_id() == Some(&want)) {
                            st.violation("engine:visible-option-not-offered", format!("{} ({:?}) for word {:?}; got {:?} | {}", a.id, spellings, w, cands.iter().map(|c| c.get_value().to_string_lossy().into_owned()).collect::<Vec<_>>(), ctx()));
                            break;
                        }
                    }
                }
            }
            if !w.starts_with('-') && !flag_sub_spelling {
                for s in &lvl.subs {
                    if s.has(Setting::Hide) {
                        continue;
                    }
                    let mut names = vec![s.name.clone()];
                    names.extend(s.aliases.iter().filter(|(_, v)| *v).map(|(a, _)| a.clone()));
                    if names.iter().any(|n| n.starts_with(w.as_str())) {
                        st.count("completeness.subcommands-expected");
                        let want = format!("command::{}", s.name);
                        if !cands.iter().any(|c| c.get_id() == Some(&want)) {
                            st.violation("engine:visible-subcommand-not-offered", format!("{} for word {:?} | {}", s.name, w, ctx()));
                            break;
                        }
                    }
                }
            }
        }
    }
}

pub fn case(seed: u64, st: &mut Stats) {
    let mut rng = Rng::new(seed);
    if rng.chance(1, 3) {
        totality(&mut rng, st);
    } else {
        soundness(&mut rng, st);
    }
}
