"""Per-property runner configuration (budgets, coverage floors, evidence text)."""

COMMON_ASSUME = [
    "monitor build = opt-level 1 with debug-assertions and overflow-checks: clap's own debug asserts are the validity gate and internal invariant monitors",
    "only gate-accepted command definitions are judged",
    "Unix OsStr encoding only",
    "reach = what the generators drive; a silent run is 'held on the executions observed', not a proof",
]

PROPS = {
    "C01": {
        "quick_ms": 20000,
        "thorough_ms": 300000,
        "floors": {"gate.accepted": 2000, "result.ok": 1000, "result.err": 1000, "ignore_errors.parses": 50},
        "rule": "random command trees (wild + targeted strata: args_conflicts_with_subcommands x groups x flag subcommands, "
                "hyphen values x terminators, allow_missing_positional x last, infer_*, ignore_errors, external subcommands), "
                "validity-gated by clap's own debug asserts, x hostile argv (tree-derived names 60%, hostile token alphabet incl. "
                "non-UTF-8). Oracle: no panic in parse / matches walk / error render, CPU time per parse < 5 s, "
                "ignore_errors => Err only for DisplayHelp/DisplayVersion. distinct_nontrivial = distinct (spec, argv) "
                "hashes with >= 1 token after argv[0], merged over shards (capped at 60k per shard).",
        "assumptions": COMMON_ASSUME + ["bounds: <=7 args, <=2 groups, <=3 subcommands per level, depth <=2, argv <= 64 tokens"],
        "technique": "runtime totality monitor: catch_unwind + clap's own debug assertions as internal invariant hooks + CPU-time watchdog over generated hostile workloads",
        "level_text": "Every parse of hostile argv against gate-accepted random command trees is executed under a monitor that records panics (with location), aborts, CPU overruns, unrenderable errors and ignore_errors leaks; 10^6 executions per quick run. Held = none observed; not a proof of totality.",
        "level_note": "Trusted: the generator's reach (feature histogram in evidence), clap's debug assertions as the validity gate. 'Never loops' is restated as bounded progress (< 5 s CPU per parse, 20 s wall watchdog => single-case re-run under RLIMIT_CPU).",
    },
    "C13": {
        "engine": "lexmon+miri",
        "rule": "every byte string over the 12-byte boundary alphabet {- = a 1 . e C3 A9 E2 82 FF 80} up to the length bound "
                "(enumerated completely, sliced over shards) plus random strings <= 26 bytes (number-shaped, multibyte, invalid), "
                "each lexed by clap_lex and compared with a byte-level reference (classification consistency, long re-assembly "
                "and first-`=` split, short-cluster walk, k x next_flag then next_value_os == unread bytes, advance_by, random "
                "interleavings of iterator calls). Same workload natively, under Miri and under valgrind memcheck. "
                "distinct_nontrivial = distinct strings lexed by the engine that covered most.",
        "exhaustive_note": "alphabet^<=L enumerated completely per engine",
        "assumptions": ["Unix OsStr encoding (bytes); the WTF-8 Windows encoding is not exercised",
                        "a clean Miri/valgrind run covers only the executions made",
                        "reference model = prefix tests + std::str::from_utf8 on &[u8]"],
        "technique": "Miri (UB/out-of-bounds/invalid str interpreter) + valgrind memcheck + byte-level reference-model monitor over exhaustive short strings and random long ones",
        "level_text": "All five unsafe re-slicing sites of clap_lex are driven by every string of length <= L over a boundary alphabet and by random strings, under Miri (any diagnostic is a violation), valgrind and natively with a byte-level oracle for every public observation.",
        "level_note": "Trusted: Miri's model of OsStr on Unix; the byte-level reference implementation (prefix tests, from_utf8). Length bound L: native 4 (quick) / 5 (thorough); Miri 2 / 3; valgrind 3 / 4.",
    },
    "C14": {
        "engine": "lexmon+miri",
        "rule": "OsStrExt: every haystack over the boundary alphabet up to the length bound x 9 needles (-, --, =, a, e-acute, a=, comma, euro, '1.') "
                "compared with naive window search on bytes (find/contains/starts_with/strip_prefix/split_once/split/try_str); "
                "RawArgs: op histories (next, next_os, peek, peek_os, is_end, remaining, seek Start/Current/End with offsets "
                "{0,+-1,+-2,+-3,-4,+-100,i64::MIN,i64::MIN+1,i64::MAX}, insert 0..2 items, cursor clone/compare; two cursors) "
                "against a (Vec, index) model with uniquely named items: exhaustive over an 8-op alphabet up to length min(L,5) "
                "on lists of 0..2 items, random histories of length <= 40 beyond. Natively, under Miri and valgrind.",
        "exhaustive_note": "haystacks alphabet^<=L x 9 needles; cursor histories 8^<=min(L,5) x {0,1,2} items",
        "assumptions": ["Unix OsStr encoding", "needles are non-empty UTF-8 (the property's premise)",
                        "a clean Miri/valgrind run covers only the executions made"],
        "technique": "Miri + valgrind memcheck + lock-step reference-model monitor (bytes / list+index) over exhaustive short and random long operation histories",
        "level_text": "Each helper call and each cursor operation is compared step by step with a trivially correct model, under an interpreter that reports any out-of-bounds or invalid-str access.",
        "level_note": "Trusted: Miri's Unix OsStr model; the naive reference. Histories are bounded (<= 40 ops, <= 3 + inserted items).",
    },
}
