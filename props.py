"""Per-property runner configuration (budgets, coverage floors, evidence text)."""

COMMON_ASSUME = [
    "monitor build = opt-level 1 with debug-assertions and overflow-checks: clap's own debug asserts are the validity gate and internal invariant monitors",
    "only gate-accepted command definitions are judged",
    "Unix OsStr encoding only",
    "reach = what the generators drive; a silent run is 'held on the executions observed', not a proof",
]

PROPS = {
    "C01": {
        "quick_ms": 20000,
        "thorough_ms": 300000,
        "floors": {"gate.accepted": 2000, "result.ok": 1000, "result.err": 1000, "ignore_errors.parses": 50},
        "rule": "random command trees (wild + targeted strata: args_conflicts_with_subcommands x groups x flag subcommands, "
                "hyphen values x terminators, allow_missing_positional x last, infer_*, ignore_errors, external subcommands), "
                "validity-gated by clap's own debug asserts, x hostile argv (tree-derived names 60%, hostile token alphabet incl. "
                "non-UTF-8). Oracle: no panic in parse / matches walk / error render, CPU time per parse < 5 s, "
                "ignore_errors => Err only for DisplayHelp/DisplayVersion. distinct_nontrivial = distinct (spec, argv) "
                "hashes with >= 1 token after argv[0], merged over shards (capped at 60k per shard).",
        "assumptions": COMMON_ASSUME + ["bounds: <=7 args, <=2 groups, <=3 subcommands per level, depth <=2, argv <= 64 tokens"],
        "technique": "runtime totality monitor: catch_unwind + clap's own debug assertions as internal invariant hooks + CPU-time watchdog over generated hostile workloads",
        "level_text": "Every parse of hostile argv against gate-accepted random command trees is executed under a monitor that records panics (with location), aborts, CPU overruns, unrenderable errors and ignore_errors leaks; 10^6 executions per quick run. Held = none observed; not a proof of totality.",
        "level_note": "Trusted: the generator's reach (feature histogram in evidence), clap's debug assertions as the validity gate. 'Never loops' is restated as bounded progress (< 5 s CPU per parse, 20 s wall watchdog => single-case re-run under RLIMIT_CPU).",
    },
    "C13": {
        "engine": "lexmon+miri",
        "rule": "every byte string over the 12-byte boundary alphabet {- = a 1 . e C3 A9 E2 82 FF 80} up to the length bound "
                "(enumerated completely, sliced over shards) plus random strings <= 26 bytes (number-shaped, multibyte, invalid), "
                "each lexed by clap_lex and compared with a byte-level reference (classification consistency, long re-assembly "
                "and first-`=` split, short-cluster walk, k x next_flag then next_value_os == unread bytes, advance_by, random "
                "interleavings of iterator calls). Same workload natively, under Miri and under valgrind memcheck. "
                "distinct_nontrivial = distinct strings lexed by the engine that covered most.",
        "exhaustive_note": "alphabet^<=L enumerated completely per engine",
        "assumptions": ["Unix OsStr encoding (bytes); the WTF-8 Windows encoding is not exercised",
                        "a clean Miri/valgrind run covers only the executions made",
                        "reference model = prefix tests + std::str::from_utf8 on &[u8]"],
        "technique": "Miri (UB/out-of-bounds/invalid str interpreter) + valgrind memcheck + byte-level reference-model monitor over exhaustive short strings and random long ones",
        "level_text": "All five unsafe re-slicing sites of clap_lex are driven by every string of length <= L over a boundary alphabet and by random strings, under Miri (any diagnostic is a violation), valgrind and natively with a byte-level oracle for every public observation.",
        "level_note": "Trusted: Miri's model of OsStr on Unix; the byte-level reference implementation (prefix tests, from_utf8). Length bound L: native 4 (quick) / 5 (thorough); Miri 2 / 3; valgrind 3 / 4.",
    },
    "C14": {
        "engine": "lexmon+miri",
        "rule": "OsStrExt: every haystack over the boundary alphabet up to the length bound x 9 needles (-, --, =, a, e-acute, a=, comma, euro, '1.') "
                "compared with naive window search on bytes (find/contains/starts_with/strip_prefix/split_once/split/try_str); "
                "RawArgs: op histories (next, next_os, peek, peek_os, is_end, remaining, seek Start/Current/End with offsets "
                "{0,+-1,+-2,+-3,-4,+-100,i64::MIN,i64::MIN+1,i64::MAX}, insert 0..2 items, cursor clone/compare; two cursors) "
                "against a (Vec, index) model with uniquely named items: exhaustive over an 8-op alphabet up to length min(L,5) "
                "on lists of 0..2 items, random histories of length <= 40 beyond. Natively, under Miri and valgrind.",
        "exhaustive_note": "haystacks alphabet^<=L x 9 needles; cursor histories 8^<=min(L,5) x {0,1,2} items",
        "assumptions": ["Unix OsStr encoding", "needles are non-empty UTF-8 (the property's premise)",
                        "a clean Miri/valgrind run covers only the executions made"],
        "technique": "Miri + valgrind memcheck + lock-step reference-model monitor (bytes / list+index) over exhaustive short and random long operation histories",
        "level_text": "Each helper call and each cursor operation is compared step by step with a trivially correct model, under an interpreter that reports any out-of-bounds or invalid-str access.",
        "level_note": "Trusted: Miri's Unix OsStr model; the naive reference. Histories are bounded (<= 40 ops, <= 3 + inserted items).",
    },
    "C20": {
        "quick_ms": 15000,
        "thorough_ms": 240000,
        "floors": {"plain.with_breaks": 10000, "plain.no_breaks": 1000, "styled.with_breaks": 1000, "styled.with_escapes": 500,
                   "plain.overlong_single_word": 100, "exhaustive.strings": 100000},
        "rule": "exhaustive: every string of <= 6 (quick) / 7 (thorough) symbols over {a, bb, ' ', '  ', LF, wide CJK, e+combining acute} "
                "x widths 1..8 through textwrap::wrap (template `[{author}]`), one width each through StyledStr::wrap (`[{about}]`); "
                "random: 1-60 words of 1-30 chars incl. wide, zero-width, combining, emoji, hyphens; multiple spaces, indented lines, "
                "blank lines, 'space before LF'; widths 0..120; styled variant with SGR sequences between and inside words. "
                "Oracle: alignment walk (equal chars advance; otherwise a maximal space run is replaced by LF + the line's indent), "
                "width bound on visible (right-trimmed) lines unless single word, width 0 = identity, escapes byte-identical in order. "
                "distinct_nontrivial = distinct (text, width) hashes (cap 60k/shard).",
        "exhaustive_note": "symbols^<=6 x widths 1..8 (quick), symbols^<=7 (thorough): enumerated completely, sliced over shards",
        "assumptions": COMMON_ASSUME + ["whitespace other than ' ' and LF (tab, NBSP, ...) is outside the text class: clap's trim_end()/trim() treat it as trimmable",
                                        "width measured with the same unicode-width tables clap uses (trusted base)",
                                        "styled: only CSI/SGR sequences are generated; indent after a break in styled text is not judged (wrapper state is carried across style blocks by design)"],
        "technique": "runtime oracle on recorded (text, width, output): alignment/conservation checker + width bound, exhaustive over short strings and random beyond",
        "level_text": "Every wrap call is judged by an alignment oracle that admits exactly one transformation (space run -> line break + indent); exhaustive for short strings x small widths, 10^5-10^6 random cases beyond.",
        "level_note": "Access through Command::help_template sentinels instead of a hook; the help writer's own trimming is kept out by the `[`...`]` literals.",
    },
    "C04": {
        "quick_ms": 12000,
        "thorough_ms": 240000,
        "floors": {"ranged.accepted": 10000, "ranged.rejected": 100000, "ranged.real_parse_ok": 1000, "boolish.accepted": 50, "boolish.rejected": 50,
                   "falsey.accepted": 50, "possible.accepted": 1000, "possible.rejected": 1000, "access.downcast": 500, "access.unknown": 500,
                   "access.removed": 500, "exhaustive.triples": 1000000},
        "rule": "exhaustive: for T in {i8,i16,i32,i64,u8,u16,u32} x ranges with bounds from {T::MIN, T::MIN+1, -1, 0, 1, T::MAX-1, T::MAX} "
                "(plus, on a full-i64 base parser, T::MIN-3, T::MAX+3, i64::MIN, i64::MAX) x {inclusive, exclusive, unbounded} x candidate "
                "values b+d (b in range bounds, T limits, i64/u64 limits, +-2^63, 2^64; d in -2..2) x spellings (plain, +, leading zeros, -0, "
                "spaces, trailing junk, .0, e0) + junk strings (empty, signs only, hex, underscores, fullwidth/Arabic digits, 40-digit, 73-digit zeros) "
                "+ non-UTF-8; same for u64; every ASCII-case variant of the 12 boolish literals +- space/junk for bool/boolish/falsey/non-empty. "
                "Oracle: independent decimal model (no machine-integer parsing; i128 after a length check) intersected with range and type; "
                "error kind and 'error names the argument'; every 7th (type,range) also through a real parse `--num=<s>`. "
                "random: possible-value sets (aliases, hidden, ignore_case, non-ASCII names) x candidate strings; typed-access histories "
                "(get_one/many, remove_one/many/occurrences, contains_id x right type/wrong type/unknown id) against a map model with a full "
                "snapshot comparison after every step; random ranges x random digit strings. distinct_nontrivial = distinct (type,range) "
                "configurations + distinct random cases.",
        "exhaustive_note": "the (type, range, candidate-string) boundary product is enumerated completely on every run",
        "assumptions": COMMON_ASSUME + ["`-0` for the u64 parser is not judged (the property does not fix the notation of unsigned zero)",
                                        "non-ASCII case folding under ignore_case: only 'an exact match is accepted' and 'an accepted value folds to a declared name' are asserted",
                                        "unknown-id detection exists only with debug assertions (this build)"],
        "technique": "language-equality oracle over an exhaustive boundary enumeration + reference-model monitor over typed-access histories",
        "level_text": "Every (type, range, string) boundary triple is decided against an independent big-decimal specification on every run; typed access is checked as a state machine with a snapshot after every operation.",
        "level_note": "Trusted: the decimal model (string shape + i128 arithmetic after length check), the literal tables copied from the documentation.",
    },
}
