"""Per-property runner configuration (budgets, coverage floors, evidence text)."""

COMMON_ASSUME = [
    "monitor build = opt-level 1 with debug-assertions and overflow-checks: clap's own debug asserts are the validity gate and internal invariant monitors",
    "only gate-accepted command definitions are judged",
    "Unix OsStr encoding only",
    "reach = what the generators drive; a silent run is 'held on the executions observed', not a proof",
]

PROPS = {
    "C01": {
        "rel_replay": True,
        "quick_ms": 20000,
        "thorough_ms": 300000,
        "floors": {"argv.long-vectors": 500, "shape.more-than-64-arguments-in-a-command": 250, "shape.more-than-4-levels": 50, "gate.accepted": 1000, "result.ok": 500, "result.err": 500, "ignore_errors.parses": 25},
        "rule": "random command trees (wild + targeted strata: args_conflicts_with_subcommands x groups x flag subcommands, "
                "hyphen values x terminators, allow_missing_positional x last, infer_*, ignore_errors, external subcommands), "
                "validity-gated by clap's own debug asserts, x hostile argv (tree-derived names 60%, hostile token alphabet incl. "
                "non-UTF-8). Oracle: no panic in parse / matches walk / error render, CPU time per parse < 5 s, "
                "ignore_errors => Err only for DisplayHelp/DisplayVersion. distinct_nontrivial = distinct (spec, argv) "
                "hashes with >= 1 token after argv[0], merged over shards (capped at 60k per shard).",
        "assumptions": COMMON_ASSUME + ["bounds: <=7 args, <=2 groups, <=3 subcommands per level, depth <=2, argv <= 64 tokens"],
        "technique": "runtime totality monitor: catch_unwind + clap's own debug assertions as internal invariant hooks + CPU-time watchdog over generated hostile workloads",
        "level_text": "Every parse of hostile argv against gate-accepted random command trees is executed under a monitor that records panics (with location), aborts, CPU overruns, unrenderable errors and ignore_errors leaks; 10^6 executions per quick run. Held = none observed; not a proof of totality.",
        "level_note": "Trusted: the generator's reach (feature histogram in evidence), clap's debug assertions as the validity gate. 'Never loops' is restated as bounded progress (< 5 s CPU per parse, 20 s wall watchdog => single-case re-run under RLIMIT_CPU).",
    },
    "C13": {
        "engine": "lexmon+miri",
        "rule": "every byte string over the 12-byte boundary alphabet {- = a 1 . e C3 A9 E2 82 FF 80} up to the length bound "
                "(enumerated completely, sliced over shards) plus random strings <= 26 bytes (number-shaped, multibyte, invalid), "
                "each lexed by clap_lex and compared with a byte-level reference (classification consistency, long re-assembly "
                "and first-`=` split, short-cluster walk, k x next_flag then next_value_os == unread bytes, advance_by, random "
                "interleavings of iterator calls). Same workload natively, under Miri and under valgrind memcheck. "
                "distinct_nontrivial = distinct strings lexed by the engine that covered most.",
        "exhaustive_note": "alphabet^<=L enumerated completely per engine",
        "assumptions": ["Unix OsStr encoding (bytes); the WTF-8 Windows encoding is not exercised",
                        "a clean Miri/valgrind run covers only the executions made",
                        "reference model = prefix tests + std::str::from_utf8 on &[u8]"],
        "technique": "Miri (UB/out-of-bounds/invalid str interpreter) + valgrind memcheck + byte-level reference-model monitor over exhaustive short strings and random long ones",
        "level_text": "All five unsafe re-slicing sites of clap_lex are driven by every string of length <= L over a boundary alphabet and by random strings, under Miri (any diagnostic is a violation), valgrind and natively with a byte-level oracle for every public observation.",
        "level_note": "Trusted: Miri's model of OsStr on Unix; the byte-level reference implementation (prefix tests, from_utf8). Length bound L: native 4 (quick) / 5 (thorough); Miri 2 / 3; valgrind 3 / 4.",
    },
    "C14": {
        "engine": "lexmon+miri",
        "rule": "OsStrExt: every haystack over the boundary alphabet up to the length bound x 16 needles (-, --, =, a, e-acute, a=, comma, euro, '1.', and the "
                "self-overlapping aab, --a, -=-, aaa, a-a, ==a, 1.1e) + needles derived from the haystack (its valid-UTF-8 substrings of 2-4 bytes at offsets 1, 2) "
                "compared with naive window search on bytes (find/contains/starts_with/strip_prefix/split_once/split/try_str); "
                "RawArgs: op histories (next, next_os, peek, peek_os, is_end, remaining, seek Start/Current/End with offsets "
                "{0,+-1,+-2,+-3,-4,+-100,i64::MIN,i64::MIN+1,i64::MAX}, insert 0..2 items from an exact-size, a size-hint-0 and a size-hint-below-length iterator, cursor clone/compare; two cursors) "
                "against a (Vec, index) model with uniquely named items: exhaustive over an 8-op alphabet up to length min(L,5) "
                "on lists of 0..2 items, random histories of length <= 40 beyond. Natively, under Miri and valgrind.",
        "exhaustive_note": "haystacks alphabet^<=L x (16 + derived) needles; cursor histories 8^<=min(L,5) x {0,1,2} items",
        "assumptions": ["Unix OsStr encoding", "needles are non-empty UTF-8 (the property's premise)",
                        "a clean Miri/valgrind run covers only the executions made"],
        "technique": "Miri + valgrind memcheck + lock-step reference-model monitor (bytes / list+index) over exhaustive short and random long operation histories",
        "level_text": "Each helper call and each cursor operation is compared step by step with a trivially correct model, under an interpreter that reports any out-of-bounds or invalid-str access.",
        "level_note": "Trusted: Miri's Unix OsStr model; the naive reference. Histories are bounded (<= 40 ops, <= 3 + inserted items).",
    },
    "C20": {
        "quick_ms": 15000,
        "thorough_ms": 240000,
        "floors": {"width.beyond-120": 10000, "plain.with_breaks": 5000, "plain.no_breaks": 500, "styled.with_breaks": 500, "styled.with_escapes": 250, "plain.with_escapes": 250,
                   "plain.overlong_single_word": 50, "exhaustive.strings": 50000},
        "rule": "exhaustive: every string of <= 6 (quick) / 7 (thorough) symbols over {a, bb, ' ', '  ', LF, wide CJK, e+combining acute} "
                "x widths 1..8 through textwrap::wrap (template `[{author}]`), one width each through StyledStr::wrap (`[{about}]`); "
                "random: 1-60 words of 1-30 chars incl. wide, zero-width, combining, emoji, hyphens; multiple spaces, indented lines, "
                "blank lines, 'space before LF'; widths 0..120; styled variant with SGR sequences between and inside words (also right in front of a word starting with `m`), sent through both wrappers. "
                "Oracle: alignment walk (equal chars advance; otherwise a maximal space run is replaced by LF + the line's indent), "
                "width bound on visible (right-trimmed) lines unless single word, width 0 = identity, escapes byte-identical in order. "
                "distinct_nontrivial = distinct (text, width) hashes (cap 60k/shard).",
        "exhaustive_note": "symbols^<=6 x widths 1..8 (quick), symbols^<=7 (thorough): enumerated completely, sliced over shards",
        "assumptions": COMMON_ASSUME + ["whitespace other than ' ' and LF (tab, NBSP, ...) is outside the text class: clap's trim_end()/trim() treat it as trimmable",
                                        "width measured with the same unicode-width tables clap uses (trusted base)",
                                        "styled: only CSI/SGR sequences are generated; in styled text a break may fall anywhere inside a space run (wrapper state is carried across style blocks by design), but what follows it must be exactly the line's indent"],
        "technique": "runtime oracle on recorded (text, width, output): alignment/conservation checker + width bound, exhaustive over short strings and random beyond",
        "level_text": "Every wrap call is judged by an alignment oracle that admits exactly one transformation (space run -> line break + indent); exhaustive for short strings x small widths, 10^5-10^6 random cases beyond.",
        "level_note": "Access through Command::help_template sentinels instead of a hook; the help writer's own trimming is kept out by the `[`...`]` literals.",
    },
    "C04": {
        "quick_ms": 12000,
        "thorough_ms": 240000,
        "floors": {"ranged.composed-ranges": 1000, "ranged.accepted": 5000, "ranged.rejected": 50000, "ranged.real_parse_ok": 500, "boolish.accepted": 25, "boolish.rejected": 25,
                   "falsey.accepted": 25, "possible.accepted": 500, "possible.rejected": 500, "access.downcast": 250, "access.unknown": 250,
                   "access.removed": 250, "access.present-without-values": 100, "exhaustive.triples": 500000},
        "rule": "exhaustive: for T in {i8,i16,i32,i64,u8,u16,u32} x ranges with bounds from {T::MIN, T::MIN+1, -1, 0, 1, T::MAX-1, T::MAX} "
                "(plus, on a full-i64 base parser, T::MIN-3, T::MAX+3, i64::MIN, i64::MAX) x {inclusive, exclusive, unbounded} x candidate "
                "values b+d (b in range bounds, T limits, i64/u64 limits, +-2^63, 2^64; d in -2..2) x spellings (plain, +, leading zeros, -0, "
                "spaces, trailing junk, .0, e0) + junk strings (empty, signs only, hex, underscores, fullwidth/Arabic digits, 40-digit, 73-digit zeros) "
                "+ non-UTF-8; same for u64; every ASCII-case variant of the 12 boolish literals +- space/junk, every single byte and every literal with one position replaced by each of the 256 byte values, for bool/boolish/falsey/non-empty. "
                "Oracle: independent decimal model (no machine-integer parsing; i128 after a length check) intersected with range and type; "
                "error kind and 'error names the argument' (also for non-UTF-8 input: F38 known for the to_str()-based parsers); each range declared in one call and in two narrowing calls; every 7th (type,range) also through a real parse `--num=<s>`. "
                "random: possible-value sets (aliases, hidden, ignore_case, non-ASCII names) x candidate strings; typed-access histories "
                "(get_one/many, remove_one/many/occurrences, contains_id x right type/wrong type/unknown id, incl. an argument present without any value) against a map model with a full "
                "snapshot comparison after every step; random ranges x random digit strings. distinct_nontrivial = distinct (type,range) "
                "configurations + distinct random cases.",
        "exhaustive_note": "the (type, range, candidate-string) boundary product is enumerated completely on every run",
        "assumptions": COMMON_ASSUME + ["`-0` for the u64 parser is not judged (the property does not fix the notation of unsigned zero)",
                                        "non-ASCII case folding under ignore_case: only 'an exact match is accepted' and 'an accepted value folds to a declared name' are asserted",
                                        "unknown-id detection exists only with debug assertions (this build)"],
        "technique": "language-equality oracle over an exhaustive boundary enumeration + reference-model monitor over typed-access histories",
        "level_text": "Every (type, range, string) boundary triple is decided against an independent big-decimal specification on every run; typed access is checked as a state machine with a snapshot after every operation.",
        "level_note": "Trusted: the decimal model (string shape + i128 arithmetic after length check), the literal tables copied from the documentation.",
    },
    "C02": {
        "quick_ms": 20000,
        "thorough_ms": 300000,
        "floors": {"spelling.value.lone-dash": 2500, "spelling.value.non-utf8": 10000, "spelling.value.non-utf8-attached": 1000, "shape.positionals-declared-out-of-index-order": 2000, "shape.last-positional-after-omitted-one": 150, "shape.last-positional-after-omitted-one.out-of-index-order": 20, "shape.more-than-20-items": 500, "spelling.prefix.long-by-setting-two-levels-up": 500, "spelling.sub.long-flag-prefix": 150, "result.ok": 10000, "spelling.cluster.option-last": 100, "spelling.opt.long-eq": 500, "spelling.opt.short-attached": 150,
                   "spelling.prefix.long": 250, "spelling.escape.optional": 150, "spelling.escape.required-for-last": 150,
                   "spelling.terminator": 100, "spelling.sub.short-flag": 50, "spelling.sub.long-flag": 50, "spelling.pos.multi": 500},
        "rule": "conventional-class command trees (flags SetTrue/SetFalse/Count, options Set/Append with num_args in {1, 2, 1..=3, 2..=3, 1.., 0.., 0..=1}, "
                "delimiters, require_equals, terminators, positionals with a multi-valued/last final one, the low-index-multiple shape (required `1..` "
                "positional + one required final positional), allow_negative_numbers / allow_hyphen_values options with dash-looking values, "
                "a trailing multi-valued positional with allow_hyphen_values (later values: known flags/longs, -h/--help/-V/--version, unknown dash words), "
                "subcommand_precedence_over_arg, hidden aliases, merged `-vS` clusters, subcommands with aliases and "
                "short/long flag forms, infer_long_args/infer_subcommands, depth <= 2) x valid intents (ordered occurrences whose values are "
                "unique ids `<arg>o<occ>v<k>`, delimiter tokens with empty pieces) x spellings (canonical + 3 random styles: =/space, attached "
                "short, -o=v, clusters with option last, aliases, unique prefixes, optional/required `--`, terminators). Oracle: the line "
                "parses; per argument the raw occurrences equal the intent's (after the action's fold and delimiter split), get_raw == "
                "flattened occurrences, sources, flag/count values, subcommand chain; indices of command-line values are distinct and "
                "sorted like the argv places the renderer recorded. distinct_nontrivial = distinct (spec, argv) with >= 1 token.",
        "assumptions": COMMON_ASSUME + ["the class is where the documented grammar is unambiguous: values start with '-' only for arguments that allow negative numbers / hyphen values (never inside a low-index pair), never equal or prefix a subcommand name; "
                                        "a level with an allow_hyphen_values positional has long-only value options (clap reads `-oVAL` / `-o=VAL` before such a positional as a positional value: observed, not judged, DESIGN 12); "
                                        "a multi-valued occurrence is closed by a following flag/option, its terminator, `--`, the end (options also by reaching the maximum or an attached value)"],
        "technique": "reference-model monitor: intent -> spellings -> observed ArgMatches compared with the intent (conservation/exactly-once on uniquely tagged values, index ordering)",
        "level_text": "Each generated line is a history with unique value ids; attribution is decided exactly (multiset + order + occurrence boundaries), 10^5-10^6 lines per quick run.",
        "level_note": "Trusted: the ~25-rule expectation (DESIGN C02 calibrated rules). Commands outside the conventional class are not judged here (C01 covers totality there).",
    },
    "C07": {
        "quick_ms": 15000,
        "thorough_ms": 240000,
        "floors": {"group.present": 10000, "group.member-removed-by-override": 2500, "fold.ok": 10000, "repeat.rejected": 1000, "fold.count_saturated": 100, "fold.removed_by_override": 500,
                   "fold.append_multi": 500, "seq.count_boundary": 250, "fold.empty-occurrence": 500, "depth.2": 5000},
        "rule": "1-4 arguments (Set/Append/SetTrue/SetFalse/Count, optional num_args 1..=2 or 0..=N with/without default_missing_value, delimiter, default) with a random override graph "
                "(both declaration directions, self-overrides, args_override_self), living 0-2 subcommand levels below the command that declares args_override_self, x occurrence sequences of length 0..300 "
                "(0, 1, 2, 254, 255, 256, 257, 300 always drawn; long runs focus one argument with others interleaved) x spellings "
                "(clusters -vvvv/-ab, long, =, attached). Oracle: sequential fold model (Set: last or ArgumentConflict; Append: all "
                "occurrences in order with boundaries, an occurrence without a value staying an (empty or default_missing) occurrence of its own; Count: min(n,255); flags: truth with opposite default and DefaultValue source when "
                "absent; an override in either direction removes the other's earlier occurrences).",
        "assumptions": COMMON_ASSUME + ["override semantics taken from the documentation: whichever of a/b is given last remains"],
        "technique": "reference-model monitor: sequential fold over recorded occurrence histories with unique value ids",
        "level_text": "Each argv is an operation history; the final ArgMatches must equal the fold of that history. Boundary lengths around 255 are drawn in every shard.",
        "level_note": "Trusted: the 40-line fold model.",
    },
    "C08": {
        "quick_ms": 20000,
        "thorough_ms": 300000,
        "floors": {"spelling.value.non-utf8-attached": 1500, "spelling.cluster.parent-flags-before-flag-sub": 250, "spelling.cluster.child-flags-after-flag-sub": 500, "spelling.sub.long-flag-prefix": 500, "spelling.prefix.long-by-setting-two-levels-up": 2500, "rewrite.both-ok": 10000, "ambiguous.probes": 1000, "ambiguous.arg-vs-flag-subcommand": 50, "ambiguous.sub-probes": 50,
                   "spelling.prefix.long": 250, "spelling.cluster.flags": 150, "spelling.opt.short-attached": 150, "spelling.escape.optional": 150,
                   "spelling.sub.alias": 100, "rewrite.index-rank-compare": 100},
        "rule": "conventional command trees (as C02) x valid intents; the canonical rendering (full names, separate tokens) is compared with 3 "
                "random re-spellings of the same intent (compositions of: --o=v / --o v, -ov / -o v / -o=v, clusters / separate flags, "
                "option last in a cluster, long/short/subcommand/flag-subcommand aliases, unique prefixes under infer_*, `--` before a "
                "pure positional suffix): both must succeed with `ArgMatches ==` (sources, raw occurrences, indices) — index ranks "
                "instead of values when a short flag subcommand spelling is involved — or both fail with the same kind. Ambiguity probes: "
                "every prefix shared by two distinct inferable targets (arguments, and long flag subcommands under infer_subcommands) "
                "and not itself a name must be rejected as UnknownArgument (`--p` and `--p=v`); likewise ambiguous subcommand-name prefixes.",
        "assumptions": COMMON_ASSUME + ["rewrites are applied only where documented as equivalent (no =-form for several value tokens, no attach before a terminator, "
                                        "`--` only without last/allow_missing_positional)",
                                        "a short flag subcommand continues the parent's index counter by design: index values are compared up to order there"],
        "technique": "metamorphic runtime monitor: ArgMatches equality across documented-equivalent spellings + ambiguity probes",
        "level_text": "Agreement between executions of the same intent under different spellings, with ArgMatches' own PartialEq as the comparison; ambiguous prefixes enumerated per command.",
        "level_note": "Trusted: the renderer's notion of 'equivalent' (DESIGN C08).",
    },
    "C05": {
        "quick_ms": 15000,
        "thorough_ms": 240000,
        "floors": {"tail.lead-value-directly-before-escape": 250, "tail.non-utf8-with-delimiter": 1500, "tail.after-values-of-negative-number-positional": 1000, "tail.ok": 10000, "tail.dash-tokens": 5000, "tail.after-values-before-escape": 2500, "tail.dont-delimit-with-delimiter": 500, "tail.terminator-declared": 2500},
        "rule": "conventional commands (options, flags, subcommands incl. flag subcommands, infer_*) whose tail level (root or a subcommand) ends in a "
                "multi-valued positional `rest` (num_args 0.. / 1.., Set/Append, with/without last(true), with/without a leading single positional (sometimes with explicit indices and the higher index declared first), "
                "String or OsString parser, optional delimiter, dont_delimit_trailing_values, optional value terminator `end` with/without ignore_case) x valid prefixes rendered from intents (any spelling; "
                "may leave an option with satisfied minimum pending; a third of the time followed by 1-2 values for `rest` given before the `--`) x "
                "tails of 0-5 hostile tokens (--help -h -V --version -- - \"\" help, delimiter-bearing tokens (`a,b` `,x` `y,` `,` `-Wl,-x`), every defined "
                "long/short (+=v), clusters, subcommand names/aliases of this and the root level, hostile alphabet incl. non-UTF-8 for OsString, -1). "
                "Oracle: parse(prefix -- tail) is Ok, `rest` (and the leading positional) hold the tail byte-for-byte in order (split only at a "
                "declared delimiter, and not at all under dont_delimit_trailing_values), no subcommand dispatched, no help/version, and every option/flag observation equals that of parse(prefix).",
        "assumptions": COMMON_ASSUME + ["premise 'able to absorb': the prefix itself parses; positionals are untyped (String/OsString); the tail never contains the positional's exact value terminator (case variants of it are ordinary values)",
                                        ],
        "technique": "metamorphic + reference-model runtime monitor: parse(prefix) vs parse(prefix -- tail), tail conservation byte-for-byte",
        "level_text": "Two executions per case are compared (non-interference) and the tail is checked for exact conservation; ~10^6 cases per quick run.",
        "level_note": "Trusted: the distribution rule of tail tokens over positionals (last => all to it; else index order).",
    },
    "C06": {
        "quick_ms": 15000,
        "thorough_ms": 240000,
        "floors": {"lattice.env-value-not-utf8": 5000, "verdict.ok-after-ignored-error": 10000, "lattice.Cli": 10000, "lattice.Env": 5000, "lattice.Default": 5000, "lattice.absent": 2500, "lattice.default_if_fired": 1000,
                   "lattice.default_if_unset": 150, "lattice.default_missing_used": 1000, "verdict.err-as-expected": 1500,
                   "lattice.global-redeclared.Cli": 500, "lattice.global-redeclared.Env": 500, "lattice.flag-env-falsey-parser": 2500, "lattice.flag-env-empty": 150, "lattice.group.Some(Cli)": 2000, "lattice.group.Some(Env)": 500, "lattice.group.None": 1000, "lattice.group-conflict": 500},
        "rule": "2-5 arguments each drawing a subset of {default_value(s), default_value_if(s) (IsPresent/Equals, Some/None default) on a plain "
                "option, default_missing + num_args(0..=1) (+ require_equals), env (set/unset, delimiter-split), flags with env true/false or, with the Falsey parser, "
                "any of {\"\", true, false, 0, no, off, x, yes, 1, FALSE, n, \" \"}} plus one "
                "conflict, one requires, one override pair and arg_required_else_help chosen so that only a *defaulted* argument could trigger them, and "
                "(half of the time) a multiple group over some of the arguments with, sometimes, an outside argument conflicting with the group id; x environments x argv "
                "(each argument absent / with value(s) / without value). Oracle: lattice model cli > env > first matching default-if > default > "
                "absent for (value_source, raw occurrences / flag value), default_missing exactly when present without value, verdict "
                "Ok / ArgumentConflict / MissingRequiredArgument / help-on-missing computed from *explicit* presence only, args_present(); the group is "
                "present (contains_id, value_source = strongest source, member ids) exactly through its explicitly supplied members. One case in six adds a "
                "two-level check: a global with an environment variable whose id the invoked subcommand declares again with its own default must report "
                "the strongest origin (command line at either level, else the environment) at both levels.",
        "assumptions": COMMON_ASSUME + ["default_value_if conditions refer only to arguments without (conditional) defaults of their own (otherwise the outcome depends on definition order, which the property does not fix)",
                                        "the process environment is private to the shard process; variables are set before the Command is built"],
        "technique": "reference-model monitor: precedence-lattice model over the product of sources, with injected environments",
        "level_text": "Every (definition, environment, argv) execution is compared with the lattice; defaults-as-presence is probed by relations only a default could trigger.",
        "level_note": "Trusted: the lattice model (~60 lines).",
    },
    "C09": {
        "quick_ms": 20000,
        "thorough_ms": 300000,
        "floors": {"spec.subcommand-with-empty-name-or-alias": 250, "spelling.sub.long-flag-prefix": 250, "result.ok": 10000, "global.supplied-at-depth-1": 1500, "global.supplied-at-depth-2": 500, "external.checked": 150,
                   "spelling.cluster.child-flags-after-flag-sub": 150, "spelling.cluster.parent-flags-before-flag-sub": 50,
                   "spelling.sub.short-flag": 250, "spelling.sub.long-flag": 150, "spelling.sub.alias": 150},
        "rule": "conventional trees of depth <= 2 with global flags/options (SetTrue/SetFalse/Count/Set, defaults) defined at depth 0 or 1, aliases, "
                "short/long flag subcommands, external subcommands (OsString/String) x intents in which every level may supply the globals it "
                "inherits x spellings incl. `-Syu` (child flags continuing the flag-subcommand token), `-vS` (parent flags before it) and nested "
                "flag subcommands. Oracle: chain of canonical names == intent; every level's arguments exactly the intent's for that level; "
                "for each global the deepest command-line occurrence (else env, else default) is observed with identical values and source at "
                "every level from its definition down; external subcommand arguments byte-identical.",
        "assumptions": COMMON_ASSUME + ["global Append arguments are outside the class (values are not merged across levels by design)"],
        "technique": "reference-model monitor over subcommand chains: per-level attribution + global-agreement invariant on the observed ArgMatches tree",
        "level_text": "Each execution's whole ArgMatches tree is compared with the intent tree; globals are checked as an agreement invariant across levels.",
        "level_note": "Trusted: 'deepest explicit occurrence wins' as the statement of the documented global semantics.",
    },
    "C03": {
        "quick_ms": 15000,
        "thorough_ms": 240000,
        "floors": {"argv.occurrence-without-value": 5000, "result.ok": 10000, "result.err": 10000, "relevant.requirement-satisfied": 2500, "relevant.exempt-conflict": 500,
                   "relevant.exempt-exclusive": 100, "relevant.exempt-subcommand": 250, "relevant.conflict-half-present": 500, "argv.append-several-occurrences": 5000},
        "rule": "2-7 flags/options (Set or Append, defaults, env) + 0-2 groups (required/multiple/conflicts (against arguments or another, disjoint group)/requires) with random relation digraphs: conflicts_with "
                "(args and groups), requires, requires_if(s) (the same target possibly named by several values and unconditionally), overrides (1/3 of cases, incl. chains and self), required, exclusive, "
                "required_unless_present_any/_all, required_if_eq_any/_all, subcommand_negates_reqs / args_conflicts_with_subcommands x argv "
                "supplying a uniformly sized random subset (with repeats under overrides; Append options 1-3 times with values from {v1,v2,v3}) + env. Oracle on every Ok: independent evaluator over "
                "the explicitly present set (value_source in {CommandLine, EnvVariable}): declared conflicts both present, exclusive not alone, "
                "non-multiple group with two members, anything required (statically, by a present argument's requires/requires_if, required "
                "group, group requires, required-if/unless) absent without a documented exemption.",
        "assumptions": COMMON_ASSUME + ["exemptions are modelled generously (conflict partners include non-multiple group siblings and overrides in both directions; a required group is excused "
                                        "if any member is blocked): the evaluator can miss a defect but not invent one"],
        "technique": "invariant monitor: independent relation checker over every successful parse of random relation graphs",
        "level_text": "No parsing model is needed: the observed presence set of each Ok result is checked against the declared relation graph; floors require every exemption kind to have been exercised.",
        "level_note": "Trusted: the evaluator (~200 lines). Only Ok results are judged here; unjustified rejections are C10's half.",
    },
    "C10": {
        "quick_ms": 20000,
        "thorough_ms": 300000,
        "floors": {"else-help.not-shown-for-valueless-option": 200, "else-help.not-shown-for-flag": 500, "else-help.shown": 2500, "faultfree.prefix-by-inherited-setting": 250, "faultfree.accepted": 5000, "fault.UnknownLong": 2500, "fault.SurplusPositional": 500, "fault.DropRequired": 500, "fault.RepeatSet": 150,
                   "fault.TooFewValues": 500, "fault.NoValueAtEnd": 500, "fault.ValueOnFlag": 1000, "fault.BadTypedValue": 250, "fault.MissingEquals": 40,
                   "fault.MissingSubcommand": 50, "fault.NonUtf8": 1500, "fault.UnknownWord": 150, "contract.DisplayHelp": 50, "contract.DisplayVersion": 15,
                   "relations.conflict-error": 1000, "relations.missing-error": 1000, "suggestion.arg": 50, "suggestion.subcommand": 15},
        "rule": "conventional trees (as C02, with typed options, subcommand_required levels and args_conflicts_with_subcommands levels) x valid intents: (a) the fault-free rendering must be "
                "accepted; (b) 13 single-fault injectors, each applied only where it breaks exactly one rule (unknown long/short in front, surplus "
                "positional, dropped required option, repeated non-overriding Set, one value too few, option at end without value, `--flag=v` / `--flag=`, "
                "out-of-range / non-numeric typed value, detached value under require_equals, omitted required subcommand, non-UTF-8 into a String "
                "parser, unknown or misspelled plain word where only a subcommand name could stand) must be rejected with the justified kind; over random relation graphs every ArgumentConflict / MissingRequiredArgument must "
                "be backed by a declared conflict among the supplied arguments / a rule that requires something absent, and no other kind may occur; "
                "(c) every error seen (incl. from hostile argv): (use_stderr, exit_code) == (false,0) for DisplayHelp/DisplayVersion else (true,2), "
                "help/version only when the line contains a help/version-looking token; (d) SuggestedArg/Subcommand/Value context names something defined.",
        "assumptions": COMMON_ASSUME + ["fault injectors skip lines where the fault would interact with an open occurrence (stated per injector in c10.rs)",
                                        "justification of relation errors is a sound over-approximation of clap's rules (a superset of reasons)"],
        "technique": "fault-injection runtime monitor on intent-valid histories + justification oracle + error-contract invariant on every observed error",
        "level_text": "Single faults are injected into lines known to be valid, so the rejected rule is known by construction; the stream/exit contract and suggestion soundness are invariants checked on every error observed (10^5 per quick run).",
        "level_note": "Trusted: the fault injectors' applicability conditions and the justified-kind table (DESIGN C10).",
    },
    "C11": {
        "quick_ms": 20000,
        "thorough_ms": 300000,
        "floors": {"agree.ok": 5000, "agree.err": 25000, "build.idempotence-checked": 2500, "reused.after-history": 10000, "reused.explicitly-built": 1500},
        "rule": "wild (C01 generator, multicall included) and conventional (globals, defaults, flag subcommands) command trees; one long-lived Command "
                "value is driven through a random history of length 2-10 over {try_get_matches_from_mut(hostile argv), build(), render_help, "
                "render_long_help, render_usage, clone-and-continue}; after every parse step the result is compared with (i) a fresh value, "
                "(ii) a second fresh value (repeatability), (iii) a value on which build() was called first: Ok => ArgMatches ==, Err => same "
                "kind; fresh vs repeat vs reused additionally the identical rendered message (not demanded once build() was called explicitly, "
                "as the property words it). `format!(\"{cmd:?}\")` after build();build() must equal the dump after build().",
        "assumptions": COMMON_ASSUME + ["histories use one program name (argv[0] == \"prog\")", "rendered messages compared without colour"],
        "technique": "metamorphic runtime monitor over operation histories on one Command value, with a fresh value as the executable model",
        "level_text": "Many short histories (2-10 ops) each checked after every step against the function computed by a fresh value; state leaks show up as a differing result or Debug dump.",
        "level_note": "Known findings F16/F20 (help-subcommand shape depends on build timing) are keyed on their exact signatures; any other difference is a fresh violation.",
    },
    "C12": {
        "rel_replay": True,
        "quick_ms": 20000,
        "thorough_ms": 300000,
        "floors": {"stratum.sparse-sections.no-help-subcommand": 500, "hidden.subcommand-checked-in-help-of-help": 500, "helpsub.own-help-rendered": 2500, "hidden.arg-of-a-level-above-checked": 2500, "width.beyond-200": 500, "render.ok": 10000, "render.width-sweep": 10000, "helpflag.rendered": 10000, "helpflag.level-checked": 5000, "visible.checked": 25000,
                   "visible.checked-short-only": 1500, "hidden.arg-checked": 1500, "hidden.subcommand-checked": 1500, "hidden.possible-value-checked": 150,
                   "visible.possible-value-checked": 500, "stratum.sparse-sections": 1000, "helpsub.rendered": 1000,
                   "hidden.custom-template-pages": 2500, "hidden.mode-hidden-option-checked": 1500},
        "rule": "wild command trees (depth <= 2; any mix of short-only/long-only flags, counts, options with value names, positionals, headings, "
                "display orders, hidden/hide_short_help/hide_long_help/next_line_help items, possible values with hidden ones, aliases, defaults, "
                "groups, relations, all command settings incl. flatten_help/next_line_help/hide_possible_values, benign or hostile text, custom "
                "templates 1/8, a sparse-section stratum with disable_help_flag + 1-2 args) whose displayed names are unique markers x term widths "
                "0..200 (+ width sweep: 4 random widths per tree; all 201 for 1/10 of the trees in thorough). Oracle: render_help / render_long_help "
                "/ render_usage / `-h` / `--help` at every level / `help <sub>` never panic; no run of > 400 spaces, output <= 64 KiB + 6 x text x "
                "nodes; default template: marker of every item visible in that mode present; every template (default or custom {options}/{positionals}/"
                "{subcommands}/{all-args}): marker of hidden subcommands, hidden possible values, hidden arguments that no rule can make required, "
                "and of options hidden for the rendered mode only (hide_short_help / hide_long_help), absent from help and usage; the usage line of `path… -h` names that level.",
        "assumptions": COMMON_ASSUME + ["a hidden argument is 'optional' only if no rule could make it required (required, required_if/unless, named in some requires, member of a required group with a visible alternative is still checked)",
                                        "a required group whose members are all hidden legitimately names them"],
        "technique": "runtime totality monitor + marker-set invariant (mention/omission) on rendered help and usage across widths",
        "level_text": "Every rendering is executed under the panic/size monitor and judged by marker presence/absence; visibility is restated independently of help_template.rs.",
        "level_note": "Trusted: the visibility restatement (hide / hide_short_help / hide_long_help / next_line_help quirk) and the marker renaming.",
    },
    "C19": {
        "quick_ms": 15000,
        "thorough_ms": 240000,
        "floors": {"pages.rendered": 25000, "control.pages-compared": 10000, "visible.arg-checked": 15000, "hidden.arg-checked": 1500,
                   "visible.subcommand-checked": 2500, "hidden.subcommand-checked": 500, "arg-checked.short-only": 1500, "visible.help-subcommand-checked": 2500},
        "rule": "wild command trees (depth <= 2, marker names as in C12, env, defaults, headings, possible values with help, versions, authors) in two "
                "variants with identical structure and identical line structure of every text slot: benign words vs adversarial lines (each "
                "starting with one of . ' \\ - \" .SH 'br \\fB .\\\" .. followed by hostile fragments: quotes, backslashes, $(), backticks, "
                "brackets, non-ASCII, tabs). Slots: about, long_about, before/after(_long)_help, author, version, long_version, arg help/long_help, "
                "possible-value help, defaults, help headings, display_name, subcommand heading and value name. A page is rendered for the root and "
                "every subcommand (Man::new on the built tree). Oracle: no panic; two renders identical; on the benign variant every non-hidden "
                "option/positional/subcommand marker present (short-only flags by their bold `-x` entry; the generated `help` subcommand too) and every hidden one absent; multiset of control lines (first byte . or ') as "
                "(request, argument count) equal between the variants.",
        "assumptions": COMMON_ASSUME + ["control-line arguments are counted roff-style: separated by spaces, double quotes group (tabs do not separate)",
                                        "blank lines in text legitimately become .PP: both variants have the same blank-line pattern",
                                        "no roff formatter is installed: the page is judged as roff source, which is what the property states"],
        "technique": "non-interference runtime monitor (benign vs adversarial text, control-line multiset) + marker-set invariant + determinism check",
        "level_text": "Two executions per tree differing only in text content are compared on the structure that the property fixes (the set of control lines).",
        "level_note": "Trusted: the control-line scanner (~30 lines).",
    },
    "C18": {
        "quick_ms": 20000,
        "thorough_ms": 300000,
        "floors": {"totality.candidates": 10000, "totality.no-completion": 2500, "soundness.queries": 50000, "soundness.arg-candidates": 50000,
                   "soundness.command-candidates": 5000, "completeness.args-expected": 25000, "completeness.subcommands-expected": 5000,
                   "stratum.canonical-spellings": 2500, "soundness.command-dispatch-checked": 2500, "soundness.option-source-checked": 25000,
                   "stratum.inside-multi-valued-positional": 500},
        "rule": "totality: wild gate-accepted trees (path value hints removed so the file system never enters) x hostile argv x every cursor index "
                "0..=len+1: complete() returns candidates or the plain 'no completion generated' error, all candidate accessors work, < 5 s CPU. "
                "soundness/completeness: conventional trees with globals, hidden args/subcommands x prefixes rendered from valid intents that end "
                "where a new argument may start (no pending value, no `--`) x cursor words {\"\", -, --, --<prefix of each long>, <prefix of each "
                "subcommand>, --zz, zz}: every arg::/command:: candidate extends the word, names an argument (own or inherited global) / "
                "subcommand of the level the intent reached and `prefix + candidate (+ required values)` is not rejected by the real parser as "
                "UnknownArgument/InvalidSubcommand and, when it parses, is read *as such* (that subcommand dispatched / that option set from the "
                "command line at that level); candidates are also judged inside a multi-valued positional whose minimum is met (no coverage demanded "
                "there); every visible long (or visible alias) / subcommand name (or visible alias) extending the word "
                "is represented by its candidate id; no hidden candidate next to a visible one. Prefixes spelled through flag subcommands or "
                "inferred prefixes, hidden aliases, value terminators or negative-number values are judged too but keyed apart (known findings F22/F23/F32/F33/F34).",
        "assumptions": COMMON_ASSUME + ["current_dir = None and no path-hinted values: the file system is outside the claim",
                                        "the level reached and 'a new argument may start' are known by construction from the rendered intent, not re-derived"],
        "technique": "runtime totality monitor + differential oracle against the real parser and the definition (soundness/completeness of candidates)",
        "level_text": "Each completion query is an execution judged against the command definition and, candidate by candidate, against the real parser.",
        "level_note": "Shell adapters (env/shells.rs) are not executed (they need the process environment and stdout of a completer binary).",
    },
    "C16": {
        "quick_ms": 30000,
        "thorough_ms": 300000,
        "floors": {"mention.checked-inside-hidden-subcommand": 500, "shape.two-trailing-positionals.first-terminated": 10, "shape.two-trailing-positionals.first-catch-all": 10, "generated.bash": 500, "generated.zsh": 500, "generated.fish": 500, "generated.powershell": 500, "generated.elvish": 500,
                   "generated.nushell": 500, "mention.checked": 25000, "mention.short-checked": 10000, "bash.syntax-ok": 500, "bash.queries": 10000},
        "rule": "wild command trees (depth <= 2, marker names incl. hyphenated / underscored / rarely `__` subcommand names, aliases, flag subcommands, "
                "value hints, possible values incl. hidden, hidden args/subcommands, globals, groups/relations, benign or hostile text) x the six "
                "generators: no panic, two generations byte-identical, every non-hidden long / visible long alias / non-hidden possible value / "
                "subcommand name / visible subcommand alias of every level the format supports (fish: two) occurs in the script, and per short character the script holds at least as many option "
                "entries spelling it (in the shell's entry format) as there are visible (level, argument) pairs with that short or visible short alias; the bash script "
                "passes `bash -n` and its function is executed in bash (one process per script) on COMP_WORDS = path + partial for every path and "
                "partials {\"\", -, --, --<1-4 chars of each long>, strict prefix of each subcommand}: a dash word yields only switches defined at "
                "that level (incl. inherited globals, help/version) that extend it and all visible longs extending it; a bare word yields all "
                "matching subcommand names/visible aliases and nothing that is not a name, switch, positional possible value or placeholder.",
        "assumptions": COMMON_ASSUME + ["only bash is installed: 'works in the shell' is decided for bash only; the other five are judged on mentions, determinism and totality",
                                        "mention = the unique marker occurs anywhere in the script (markers are unique per level); shorts are counted per character over the whole script (a lower bound: globals and hidden arguments may add entries)"],
        "technique": "runtime totality/determinism monitor + mention-coverage invariant + executed-bash differential oracle (COMPREPLY vs definition)",
        "level_text": "Every generator run is monitored; the bash script is additionally executed on enumerated completion queries and COMPREPLY compared with the command definition.",
        "level_note": "Known format gaps (F4, F10, F26, F27, F28, F29) are keyed by (generator, item class); any other missing mention is a fresh violation.",
    },
    "C17": {
        "quick_ms": 25000,
        "thorough_ms": 300000,
        "floors": {"compared.bash": 1500, "compared.zsh": 1500, "compared.fish": 1500, "compared.powershell": 1500, "compared.elvish": 1500, "compared.nushell": 1500,
                   "bash.syntax-ok": 1500},
        "rule": "wild trees (as C16) in two variants with identical structure and identical line structure of every descriptive slot (about, long_about, "
                "before/after(_long)_help, author, versions, arg help/long_help, possible-value help): benign words vs adversarial lines (quotes of "
                "either kind, typographic quotes U+2018-201B, backslashes, $(...), ${...}, backticks, brackets, colons, braces, {n}, ;|&#!%*?~<>, tabs, "
                "CJK, combining marks, ZWJ, roff-looking starts). For each generator both scripts are reduced to a first-level skeleton by a lexer "
                "with that shell's quoting rules (literal and comment contents abstracted, `$`/backtick events inside double quotes kept, adjacent "
                "quoted pieces of one word collapsed) and the skeletons must be equal; the adversarial bash script must pass `bash -n`.",
        "assumptions": COMMON_ASSUME + ["first-level structure only (how the shell reads the file); what complete/_arguments re-evaluate later is out of reach without those shells",
                                        "the per-shell lexers are part of the trusted base; where a quoting rule was uncertain the character is treated as ordinary (can only miss a defect)"],
        "technique": "non-interference runtime monitor: per-shell lexical skeleton of script(adversarial text) == skeleton of script(benign text)",
        "level_text": "Two generator executions per tree and shell are compared on token structure; equal skeletons mean the text stayed inside literals/comments.",
        "level_note": "PowerShell: ' and U+2018/2019/201A/201B delimit single-quoted strings, U+201C/201D/201E double-quoted ones (PowerShell tokenizer rules).",
    },
    "C15": {
        "quick_ms": 15000,
        "thorough_ms": 240000,
        "floors": {"optional-flatten.single-option-present": 1000, "optional-flatten.single-flag-present": 1000, "update.flattened-struct.boxed-required-not-named": 2500, "update.flattened-enum.own-variant-to-flattened-child": 500, "update.flattened-enum.flattened-child-to-other-flattened-child": 500, "update.flattened-enum.same-variant": 250, "update.flattened-enum.to-own-variant": 500, "roundtrip.ok": 10000, "agree.ok": 15000, "agree.err": 15000, "update.ok": 5000, "update.unnamed-field-kept": 5000, "value_enum.names": 500,
                   "type.N": 500, "type.A": 500, "type.B": 500, "type.C": 500, "type.D": 500, "type.E": 500, "type.F": 500, "type.G": 500, "type.L": 500,
                   "update.sub.option.same-variant": 300, "update.sub.option.other-variant": 300, "update.sub.plain.same-variant": 300, "update.sub.option.no-subcommand-named": 150},
        "rule": "corpus of 11 derived Parser types (+ Args, 3 Subcommand enums, 1 ValueEnum) spanning bool / SetFalse bool / counter / T / Option<T> / "
                "Option<Option<T>> (with and without default) / a scalar whose argument holds several delimited values / Vec<T> / Option<Vec<T>> / delimited Vec / fixed-arity Vec / last Vec / positionals / default_value_t / "
                "default_values_t / default_missing_value / env / rename_all / flatten / global / optional, required, nested, tuple-variant, flattened-enum and external subcommands / "
                "value_enum with aliases, renamed, hidden and skipped variants. Per type: random values are printed to argv and parsed back (round trip); "
                "the printed line and 3 mutations of it (token dropped/duplicated/swapped/suffixed, --bogus, -h, --, empty, overflow) are parsed by "
                "T::try_parse_from and by T::command() + a hand-written extractor (by shape, builder API only): Ok/Err and error kind must agree, "
                "values must be equal, FromArgMatches on the command's matches too; update frame: x.try_update_from(argv naming a random "
                "subset of another value's fields) must set exactly the named fields, for flat types and for Option<Subcommand> / Subcommand fields "
                "(same variant named: named variant fields replaced and the others kept; other variant or nothing held: the value on the line; no "
                "subcommand named: field kept); ValueEnum: every name/alias (hidden variants included) maps back and is accepted by the derived argument parser (both ignore_case "
                "settings, upper-cased), no duplicates, skipped variant unreachable.",
        "assumptions": COMMON_ASSUME + ["Vec<Vec<T>> fields need clap's unstable-v5 feature, which would change clap for every monitor: that one shape is not in the corpus",
                                        "the corpus is fixed at compile time: a change in clap_derive is picked up by recompiling the harness (the check always rebuilds)"],
        "technique": "differential runtime monitor: derive-generated parser vs command + independent extractor, round-trip and update-frame oracles over generated values",
        "level_text": "For each corpus type every generated value/line is an execution compared between two implementations of the same mapping (macro-generated vs hand-written by shape).",
        "level_note": "Trusted: the hand-written extractors and printers (c15.rs).",
    },
}
