"""Per-property runner configuration (budgets, coverage floors, evidence text)."""

COMMON_ASSUME = [
    "monitor build = opt-level 1 with debug-assertions and overflow-checks: clap's own debug asserts are the validity gate and internal invariant monitors",
    "only gate-accepted command definitions are judged",
    "Unix OsStr encoding only",
    "reach = what the generators drive; a silent run is 'held on the executions observed', not a proof",
]

PROPS = {
    "C01": {
        "quick_ms": 20000,
        "thorough_ms": 300000,
        "floors": {"gate.accepted": 2000, "result.ok": 1000, "result.err": 1000, "ignore_errors.parses": 50},
        "rule": "random command trees (wild + targeted strata: args_conflicts_with_subcommands x groups x flag subcommands, "
                "hyphen values x terminators, allow_missing_positional x last, infer_*, ignore_errors, external subcommands), "
                "validity-gated by clap's own debug asserts, x hostile argv (tree-derived names 60%, hostile token alphabet incl. "
                "non-UTF-8). Oracle: no panic in parse / matches walk / error render, CPU time per parse < 5 s, "
                "ignore_errors => Err only for DisplayHelp/DisplayVersion. distinct_nontrivial = distinct (spec, argv) "
                "hashes with >= 1 token after argv[0], merged over shards (capped at 60k per shard).",
        "assumptions": COMMON_ASSUME + ["bounds: <=7 args, <=2 groups, <=3 subcommands per level, depth <=2, argv <= 64 tokens"],
        "technique": "runtime totality monitor: catch_unwind + clap's own debug assertions as internal invariant hooks + CPU-time watchdog over generated hostile workloads",
        "level_text": "Every parse of hostile argv against gate-accepted random command trees is executed under a monitor that records panics (with location), aborts, CPU overruns, unrenderable errors and ignore_errors leaks; 10^6 executions per quick run. Held = none observed; not a proof of totality.",
        "level_note": "Trusted: the generator's reach (feature histogram in evidence), clap's debug assertions as the validity gate. 'Never loops' is restated as bounded progress (< 5 s CPU per parse, 20 s wall watchdog => single-case re-run under RLIMIT_CPU).",
    },
}
