//! lexmon — C13/C14 workload over clap_lex with byte-level reference models.
//! Runs natively, under Miri (`cargo +nightly miri run -- …`) and under valgrind.
//! All parameters come through argv (Miri isolates the environment).
//!
//!   lexmon c13|c14 [--seed S] [--shard i] [--nshards n] [--maxlen L] [--random N] [--longcap BYTES] [--one HEX] [--case-seed X]
use clap_lex::{OsStrExt as _, RawArgs, SeekFrom};
use std::collections::BTreeMap;
use std::ffi::{OsStr, OsString};
use std::fmt::Write as _;
use std::os::unix::ffi::{OsStrExt, OsStringExt};
use std::panic::{catch_unwind, AssertUnwindSafe};

// ------------------------------------------------------------ plumbing (duplicated from harness::core on purpose: no deps)

fn splitmix(mut z: u64) -> u64 {
    z = z.wrapping_add(0x9E37_79B9_7F4A_7C15);
    z = (z ^ (z >> 30)).wrapping_mul(0xBF58_476D_1CE4_E5B9);
    z = (z ^ (z >> 27)).wrapping_mul(0x94D0_49BB_1331_11EB);
    z ^ (z >> 31)
}
fn mix(a: u64, b: u64) -> u64 {
    splitmix(a ^ splitmix(b.wrapping_add(0x1234_5678_9abc_def1)))
}
struct Rng(u64);
impl Rng {
    fn new(seed: u64) -> Self {
        Rng(splitmix(seed) | 1)
    }
    fn next(&mut self) -> u64 {
        let mut x = self.0;
        x ^= x >> 12;
        x ^= x << 25;
        x ^= x >> 27;
        self.0 = x;
        x.wrapping_mul(0x2545_F491_4F6C_DD1D)
    }
    fn below(&mut self, n: usize) -> usize {
        ((self.next() >> 11) % (n as u64)) as usize
    }
}

fn jstr(s: &str) -> String {
    let mut o = String::from("\"");
    for c in s.chars() {
        match c {
            '"' => o.push_str("\\\""),
            '\\' => o.push_str("\\\\"),
            '\n' => o.push_str("\\n"),
            c if (c as u32) < 0x20 => {
                let _ = write!(o, "\\u{:04x}", c as u32);
            }
            c => o.push(c),
        }
    }
    o.push('"');
    o
}
fn hex(b: &[u8]) -> String {
    let mut s = String::new();
    for x in b {
        let _ = write!(s, "{:02x}", x);
    }
    s
}
fn unhex(s: &str) -> Vec<u8> {
    (0..s.len() / 2).map(|i| u8::from_str_radix(&s[2 * i..2 * i + 2], 16).unwrap()).collect()
}
fn os(b: &[u8]) -> OsString {
    OsString::from_vec(b.to_vec())
}

#[derive(Default)]
struct Stats {
    evaluations: u64,
    distinct: u64,
    counters: BTreeMap<String, u64>,
    sig_counts: BTreeMap<String, u64>,
    violations: Vec<(String, String, String)>, // sig, detail, replay-arg
    samples: Vec<String>,
    cur_replay: String,
}
impl Stats {
    fn count(&mut self, k: &str) {
        *self.counters.entry(k.to_string()).or_insert(0) += 1;
    }
    fn violation(&mut self, sig: &str, detail: String) {
        let n = self.sig_counts.entry(sig.to_string()).or_insert(0);
        *n += 1;
        if *n <= 3 {
            self.violations.push((sig.to_string(), detail, self.cur_replay.clone()));
        }
    }
    fn json(&self, prop: &str, shard: usize) -> String {
        let mut o = String::new();
        let _ = write!(
            o,
            "{{\"property\":{},\"shard\":{},\"cases\":{},\"evaluations\":{},\"distinct\":{},\"wall_ms\":0,\"counters\":{{",
            jstr(prop),
            shard,
            self.distinct,
            self.evaluations,
            self.distinct
        );
        let mut first = true;
        for (k, v) in &self.counters {
            if !first {
                o.push(',');
            }
            first = false;
            let _ = write!(o, "{}:{}", jstr(k), v);
        }
        o.push_str("},\"sig_counts\":{");
        first = true;
        for (k, v) in &self.sig_counts {
            if !first {
                o.push(',');
            }
            first = false;
            let _ = write!(o, "{}:{}", jstr(k), v);
        }
        o.push_str("},\"samples\":[");
        first = true;
        for s in &self.samples {
            if !first {
                o.push(',');
            }
            first = false;
            o.push_str(&jstr(s));
        }
        o.push_str("],\"violations\":[");
        first = true;
        for (sig, d, r) in &self.violations {
            if !first {
                o.push(',');
            }
            first = false;
            let _ = write!(o, "{{\"sig\":{},\"detail\":{},\"case_seed\":{}}}", jstr(sig), jstr(d), jstr(r));
        }
        o.push_str("],\"harness_errors\":[],\"fps\":[]}");
        o
    }
}

/// boundary alphabet: flag/assign/letters/number shapes, a 2-byte char (C3 A9 = é), a 3-byte
/// lead + continuation (E2 82 …), an invalid byte, a lone continuation byte
const ALPHA: [u8; 12] = [b'-', b'=', b'a', b'1', b'.', b'e', 0xC3, 0xA9, 0xE2, 0x82, 0xFF, 0x80];

// ------------------------------------------------------------ C13 reference model

fn model_is_number(s: &[u8]) -> bool {
    // documented shape: digits, optional single dot after some digits, optional exponent
    // e/E followed by at least one more character (digits): ^[0-9]+(\.[0-9]*)?([eE][0-9]+)?$
    let mut i = 0;
    let n = s.len();
    let d0 = i;
    while i < n && s[i].is_ascii_digit() {
        i += 1;
    }
    if i == d0 {
        return false;
    }
    if i < n && s[i] == b'.' {
        i += 1;
        while i < n && s[i].is_ascii_digit() {
            i += 1;
        }
    }
    if i < n && (s[i] == b'e' || s[i] == b'E') {
        i += 1;
        let e0 = i;
        while i < n && s[i].is_ascii_digit() {
            i += 1;
        }
        if i == e0 {
            return false;
        }
    }
    i == n
}

/// (valid chars with their byte offsets, offset where the invalid tail starts or len)
fn model_split(rem: &[u8]) -> (Vec<(usize, char)>, usize) {
    let valid = match std::str::from_utf8(rem) {
        Ok(s) => s,
        Err(e) => std::str::from_utf8(&rem[..e.valid_up_to()]).unwrap(),
    };
    (valid.char_indices().collect(), valid.len())
}

fn check_c13(b: &[u8], st: &mut Stats, rng: &mut Rng) {
    st.cur_replay = format!("--one {}", hex(b));
    st.evaluations += 1;
    let r = catch_unwind(AssertUnwindSafe(|| check_c13_inner(b, st, rng)));
    if r.is_err() {
        st.violation("panic:lex", format!("panic while lexing bytes {}", hex(b)));
    }
}

fn check_c13_inner(b: &[u8], st: &mut Stats, rng: &mut Rng) {
    let raw = RawArgs::new([os(b)]);
    let mut cur = raw.cursor();
    let arg = raw.next(&mut cur).expect("one item");
    let h = hex(b);
    macro_rules! bad {
        ($sig:expr, $($fmt:tt)*) => { st.violation($sig, format!("bytes={} : {}", h, format!($($fmt)*))) };
    }
    // --- classification
    let m_escape = b == b"--";
    let m_stdio = b == b"-";
    let m_long = b.starts_with(b"--") && b.len() > 2;
    let m_short = b.starts_with(b"-") && b.len() > 1 && !b.starts_with(b"--");
    let m_neg = b.starts_with(b"-") && std::str::from_utf8(b).is_ok() && model_is_number(&b[1..]);
    if arg.is_escape() != m_escape {
        bad!("class:is_escape", "is_escape={} model={}", arg.is_escape(), m_escape);
    }
    if arg.is_stdio() != m_stdio {
        bad!("class:is_stdio", "is_stdio={} model={}", arg.is_stdio(), m_stdio);
    }
    if arg.is_empty() != b.is_empty() {
        bad!("class:is_empty", "is_empty={}", arg.is_empty());
    }
    if arg.is_long() != m_long {
        bad!("class:is_long", "is_long={} model={}", arg.is_long(), m_long);
    }
    if arg.is_short() != m_short {
        bad!("class:is_short", "is_short={} model={}", arg.is_short(), m_short);
    }
    if arg.is_long() != arg.to_long().is_some() {
        bad!("class:is_long-vs-to_long", "is_long={} to_long.is_some={}", arg.is_long(), arg.to_long().is_some());
    }
    if arg.is_short() != arg.to_short().is_some() {
        bad!("class:is_short-vs-to_short", "is_short={} to_short.is_some={}", arg.is_short(), arg.to_short().is_some());
    }
    let n_classes = [arg.is_escape(), arg.is_stdio(), arg.is_long(), arg.is_short()].iter().filter(|x| **x).count();
    if n_classes > 1 {
        bad!("class:overlap", "escape={} stdio={} long={} short={}", arg.is_escape(), arg.is_stdio(), arg.is_long(), arg.is_short());
    }
    if arg.is_negative_number() != m_neg {
        if b == b"-" {
            bad!("class:negnum:stdio-dash", "is_negative_number() is true for the lone `-` (also is_stdio)");
        } else {
            bad!("class:negnum", "is_negative_number={} model={}", arg.is_negative_number(), m_neg);
        }
    }
    if arg.is_negative_number() && (arg.is_stdio() || arg.is_escape() || arg.is_long()) && b != b"-" {
        bad!("class:negnum-overlap", "negative number overlaps another class");
    }
    if m_neg {
        st.count("class.negative_number");
    }
    if m_escape {
        st.count("class.escape");
    } else if m_stdio {
        st.count("class.stdio");
    } else if m_long {
        st.count("class.long");
    } else if m_short {
        st.count("class.short");
    } else {
        st.count("class.value");
    }
    // --- value views
    if arg.to_value_os().as_bytes() != b {
        bad!("value:to_value_os", "to_value_os differs");
    }
    match (arg.to_value(), std::str::from_utf8(b)) {
        (Ok(s), Ok(m)) if s == m => {}
        (Err(o), Err(_)) if o.as_bytes() == b => {}
        _ => bad!("value:to_value", "to_value disagrees with from_utf8"),
    }
    if arg.display().to_string() != String::from_utf8_lossy(b) {
        bad!("value:display", "display differs from lossy conversion");
    }
    // --- long decomposition re-assembles
    if let Some((flag, value)) = arg.to_long() {
        let (fb, ok) = match flag {
            Ok(s) => (s.as_bytes().to_vec(), true),
            Err(o) => (o.as_bytes().to_vec(), false),
        };
        let mut re = b"--".to_vec();
        re.extend_from_slice(&fb);
        if let Some(v) = value {
            re.push(b'=');
            re.extend_from_slice(v.as_bytes());
        }
        if re != b {
            bad!("long:reassembly", "--{}[={:?}] != original", hex(&fb), value.map(|v| hex(v.as_bytes())));
        }
        if fb.contains(&b'=') {
            bad!("long:flag-contains-eq", "flag part contains `=`");
        }
        if ok != std::str::from_utf8(&fb).is_ok() {
            bad!("long:flag-utf8", "Ok/Err of the flag disagrees with its UTF-8 validity");
        }
        // model: split at the first `=` of the remainder
        let rem = &b[2..];
        let (mf, mv) = match rem.iter().position(|c| *c == b'=') {
            Some(i) => (&rem[..i], Some(&rem[i + 1..])),
            None => (rem, None),
        };
        if mf != &fb[..] || mv != value.map(|v| v.as_bytes()) {
            bad!("long:split-point", "flag/value split differs from first-`=` model");
        }
        st.count(if value.is_some() { "long.with_value" } else { "long.bare" });
        if !ok {
            st.count("long.non_utf8_flag");
        }
    }
    // --- short cluster walk
    if let Some(sf0) = arg.to_short() {
        let rem = &b[1..];
        let (chars, valid_len) = model_split(rem);
        let has_tail = valid_len < rem.len();
        if has_tail {
            st.count("short.invalid_tail");
        }
        if chars.iter().any(|(_, c)| c.len_utf8() > 1) {
            st.count("short.multibyte_char");
        }
        // is_negative_number on the fresh iterator
        let m_sneg = !has_tail && model_is_number(rem);
        if sf0.is_negative_number() != m_sneg {
            bad!("short:negnum", "ShortFlags::is_negative_number={} model={}", sf0.is_negative_number(), m_sneg);
        }
        // full walk
        let mut sf = sf0.clone();
        let mut i = 0;
        loop {
            let m_empty = i >= chars.len() && !(has_tail && i == chars.len());
            if sf.is_empty() != m_empty {
                bad!("short:is_empty", "at step {} is_empty={} model={}", i, sf.is_empty(), m_empty);
            }
            match sf.next_flag() {
                Some(Ok(c)) => {
                    if i >= chars.len() || chars[i].1 != c {
                        bad!("short:walk", "step {} yielded {:?}, model {:?}", i, c, chars.get(i));
                        break;
                    }
                }
                Some(Err(t)) => {
                    if !(has_tail && i == chars.len() && t.as_bytes() == &rem[valid_len..]) {
                        bad!("short:tail", "step {} yielded Err({}), model tail {:?}", i, hex(t.as_bytes()), has_tail.then(|| hex(&rem[valid_len..])));
                    }
                    if sf.next_flag().is_some() || sf.next_value_os().is_some() || !sf.is_empty() {
                        bad!("short:after-tail", "iterator yields after the invalid tail");
                    }
                    i += 1;
                    break;
                }
                None => {
                    if i != chars.len() || has_tail {
                        bad!("short:early-end", "ended at step {} of {} (tail={})", i, chars.len(), has_tail);
                    }
                    if sf.next_flag().is_some() || sf.next_value_os().is_some() {
                        bad!("short:after-end", "iterator yields after None");
                    }
                    break;
                }
            }
            i += 1;
            if i > rem.len() + 2 {
                bad!("short:runaway", "more items than bytes");
                break;
            }
        }
        // every k: k x next_flag then next_value_os == unread bytes, then exhausted
        let total = chars.len() + usize::from(has_tail);
        for k in 0..=total + 1 {
            let mut sf = sf0.clone();
            for _ in 0..k {
                let _ = sf.next_flag();
            }
            let unread: Option<&[u8]> = if k < chars.len() {
                Some(&rem[chars[k].0..])
            } else if k == chars.len() && has_tail {
                Some(&rem[valid_len..])
            } else {
                None
            };
            let got = sf.next_value_os();
            if got.map(|g| g.as_bytes()) != unread {
                bad!("short:next_value_os", "after {} flags next_value_os={:?} model={:?}", k, got.map(|g| hex(g.as_bytes())), unread.map(hex));
            }
            if let Some(g) = got {
                // never splits inside a UTF-8 sequence of the valid prefix
                let off = rem.len() - g.len();
                if off < valid_len && !std::str::from_utf8(&rem[..valid_len]).unwrap().is_char_boundary(off) {
                    bad!("short:split-inside-char", "value starts inside a UTF-8 sequence at {}", off);
                }
            }
            if sf.next_flag().is_some() || sf.next_value_os().is_some() || !sf.is_empty() {
                bad!("short:after-value", "iterator not exhausted after next_value_os (k={})", k);
            }
            st.evaluations += 1;
        }
        // advance_by(n)
        for n in 0..=total + 1 {
            let mut sf = sf0.clone();
            let r = sf.advance_by(n);
            let m: Result<(), usize> = if n <= chars.len() { Ok(()) } else { Err(chars.len()) };
            if r != m {
                bad!("short:advance_by", "advance_by({})={:?} model={:?}", n, r, m);
            }
            if r.is_ok() {
                let nxt = sf.next_flag();
                let mnxt: Option<Result<char, ()>> = if n < chars.len() { Some(Ok(chars[n].1)) } else { None };
                match (nxt, mnxt) {
                    (Some(Ok(a)), Some(Ok(b2))) if a == b2 => {}
                    (Some(Err(_)), None) if has_tail => {}
                    (None, None) if !has_tail => {}
                    (a, _) => bad!("short:advance_by-pos", "after advance_by({}) next={:?}", n, a.map(|x| x.map_err(|e| hex(e.as_bytes())))),
                }
            }
            st.evaluations += 1;
        }
        // random interleaving of operations against the positional model
        let mut sf = sf0.clone();
        let mut pos = 0usize; // items consumed; `total` == exhausted
        let mut trace = String::new();
        for _ in 0..6 {
            match rng.below(4) {
                0 => {
                    let got = sf.next_flag();
                    let _ = write!(trace, "next_flag;");
                    let exp: Option<Result<char, &[u8]>> = if pos < chars.len() {
                        Some(Ok(chars[pos].1))
                    } else if pos == chars.len() && has_tail {
                        Some(Err(&rem[valid_len..]))
                    } else {
                        None
                    };
                    let got2 = got.map(|r| r.map_err(|e| e.as_bytes()));
                    if got2 != exp {
                        bad!("short:interleave", "trace {} got {:?} expected {:?}", trace, got2, exp);
                        break;
                    }
                    if pos < total {
                        pos += 1;
                    }
                }
                1 => {
                    let got = sf.next_value_os();
                    let _ = write!(trace, "next_value_os;");
                    let exp: Option<&[u8]> = if pos < chars.len() {
                        Some(&rem[chars[pos].0..])
                    } else if pos == chars.len() && has_tail {
                        Some(&rem[valid_len..])
                    } else {
                        None
                    };
                    if got.map(|g| g.as_bytes()) != exp {
                        bad!("short:interleave", "trace {} got {:?} expected {:?}", trace, got.map(|g| hex(g.as_bytes())), exp.map(hex));
                        break;
                    }
                    pos = total;
                }
                2 => {
                    let _ = write!(trace, "is_empty;");
                    if sf.is_empty() != (pos >= total) {
                        bad!("short:interleave", "trace {} is_empty={} pos={} total={}", trace, sf.is_empty(), pos, total);
                        break;
                    }
                }
                _ => {
                    let n = rng.below(3);
                    let _ = write!(trace, "advance_by({});", n);
                    let r = sf.advance_by(n);
                    let avail = chars.len().saturating_sub(pos.min(chars.len()));
                    let exp: Result<(), usize> = if n <= avail { Ok(()) } else { Err(avail) };
                    if r != exp {
                        bad!("short:interleave", "trace {} advance_by={:?} expected {:?}", trace, r, exp);
                        break;
                    }
                    if n <= avail {
                        pos += n;
                    } else {
                        // consumed the valid chars, and the tail item (if any) when it hit it
                        pos = if has_tail { total } else { chars.len() };
                    }
                }
            }
            st.evaluations += 1;
        }
    }
}

fn enumerate(maxlen: usize, shard: usize, nshards: usize, mut f: impl FnMut(&[u8])) -> u64 {
    let mut n = 0u64;
    let mut idx = 0u64;
    for len in 0..=maxlen {
        let total = (ALPHA.len() as u64).pow(len as u32);
        for code in 0..total {
            if (idx % nshards as u64) as usize == shard {
                let mut b = Vec::with_capacity(len);
                let mut c = code;
                for _ in 0..len {
                    b.push(ALPHA[(c % ALPHA.len() as u64) as usize]);
                    c /= ALPHA.len() as u64;
                }
                f(&b);
                n += 1;
            }
            idx += 1;
        }
    }
    n
}

fn random_bytes(rng: &mut Rng, maxlen: usize) -> Vec<u8> {
    let len = rng.below(maxlen + 1);
    let mut b = Vec::with_capacity(len + 2);
    if rng.below(5) == 0 {
        // number-shaped strings
        b.push(b'-');
        for _ in 0..rng.below(8) {
            b.push(b"0123456789..eE-+"[rng.below(16)]);
        }
        return b;
    }
    match rng.below(4) {
        0 => b.push(b'-'),
        1 => b.extend_from_slice(b"--"),
        _ => {}
    }
    for _ in 0..len {
        match rng.below(10) {
            0..=5 => b.push(ALPHA[rng.below(ALPHA.len())]),
            6 => b.extend_from_slice("é".as_bytes()),
            7 => b.extend_from_slice("世".as_bytes()),
            8 => b.extend_from_slice("\u{1F600}".as_bytes()),
            _ => b.push(rng.below(256) as u8),
        }
    }
    b
}

/// far end of "any byte string": long inputs whose interesting byte sits right at a block boundary
/// (multiples of 16/32/64/256/…), the rest being filler that contains none of the needles' lead bytes
fn long_bytes(rng: &mut Rng, cap: usize) -> Vec<u8> {
    const EDGES: [usize; 12] = [16, 32, 64, 128, 192, 256, 320, 512, 768, 1024, 2048, 4096];
    let filler: &[u8] = match rng.below(5) {
        0 => "é".as_bytes(),
        1 => "世".as_bytes(),
        2 => b"x",
        3 => b"z9",
        _ => b"q",
    };
    let allowed = EDGES.iter().filter(|e| **e <= cap).count().max(1);
    let nedges = if rng.below(4) == 0 { allowed } else { allowed.min(7) };
    let edge = EDGES[rng.below(nedges)];
    // total length a little beyond the edge (or well beyond it)
    let total = edge + rng.below(8) + if cap >= 1024 && rng.below(3) == 0 { rng.below(300) } else { 0 };
    let mut b: Vec<u8> = Vec::with_capacity(total + 8);
    match rng.below(3) {
        0 => b.extend_from_slice(b"--"),
        1 => b.push(b'-'),
        _ => {}
    }
    let head = b.len();
    // the planted fragment ends up starting at edge + delta (absolute, or relative to the part
    // after the dashes): straddling, just before, just after
    let frag = NEEDLES[rng.below(NEEDLES.len())].as_bytes();
    let delta = rng.below(2 * frag.len() + 3) as isize - (frag.len() as isize + 1);
    let origin = if rng.below(2) == 0 { 0 } else { head };
    let at = (origin as isize + edge as isize + delta).max(head as isize) as usize;
    while b.len() < at {
        let room = at - b.len();
        if room >= filler.len() {
            b.extend_from_slice(filler);
        } else {
            b.extend(std::iter::repeat(b'x').take(room));
        }
    }
    b.extend_from_slice(frag);
    // sometimes a second copy further on (the first occurrence is what counts)
    while b.len() < total {
        if rng.below(40) == 0 {
            b.extend_from_slice(frag);
        } else {
            b.extend_from_slice(filler);
        }
    }
    if rng.below(10) == 0 {
        b.push(0xFF);
    }
    b
}

// ------------------------------------------------------------ C14: OsStrExt vs bytes

fn naive_find(h: &[u8], n: &[u8]) -> Option<usize> {
    if n.len() > h.len() {
        return None;
    }
    (0..=h.len() - n.len()).find(|&i| &h[i..i + n.len()] == n)
}

/// (the second half: needles that overlap themselves, so that a search which skips ahead after a
/// partial match misses an occurrence: `aab` in `aaab`)
const NEEDLES: [&str; 16] = ["-", "--", "=", "a", "é", "a=", ",", "€", "1.", "aab", "--a", "-=-", "aaa", "a-a", "==a", "1.1e"];

fn check_ext(hay: &[u8], st: &mut Stats) {
    st.cur_replay = format!("--one {}", hex(hay));
    let r = catch_unwind(AssertUnwindSafe(|| {
        let h = OsStr::from_bytes(hay);
        let hh = hex(hay);
        // needles derived from the haystack itself: its valid-UTF-8 substrings of 2..=4 bytes
        // starting at offsets 1 and 2 (so that an occurrence is guaranteed and usually not at 0)
        let mut derived: Vec<String> = vec![];
        for start in 1..=2usize {
            for len in 2..=4usize {
                if start + len <= hay.len() {
                    if let Ok(sub) = std::str::from_utf8(&hay[start..start + len]) {
                        if !derived.iter().any(|d| d == sub) && !NEEDLES.contains(&sub) {
                            derived.push(sub.to_string());
                        }
                    }
                }
            }
        }
        for needle in NEEDLES.iter().copied().chain(derived.iter().map(|s| s.as_str())) {
            st.evaluations += 1;
            let nb = needle.as_bytes();
            macro_rules! bad {
                ($sig:expr, $($fmt:tt)*) => { st.violation($sig, format!("haystack={} needle={:?} : {}", hh, needle, format!($($fmt)*))) };
            }
            let mf = naive_find(hay, nb);
            if h.find(needle) != mf {
                bad!("ext:find", "find={:?} model={:?}", h.find(needle), mf);
            }
            if h.contains(needle) != mf.is_some() {
                bad!("ext:contains", "contains={} model={}", h.contains(needle), mf.is_some());
            }
            let msw = hay.starts_with(nb);
            if h.starts_with(needle) != msw {
                bad!("ext:starts_with", "starts_with={} model={}", h.starts_with(needle), msw);
            }
            let msp = hay.strip_prefix(nb);
            if h.strip_prefix(needle).map(|x| x.as_bytes()) != msp {
                bad!("ext:strip_prefix", "strip_prefix differs");
            }
            let mso = mf.map(|i| (&hay[..i], &hay[i + nb.len()..]));
            if h.split_once(needle).map(|(a, b)| (a.as_bytes(), b.as_bytes())) != mso {
                bad!("ext:split_once", "split_once differs");
            }
            // split
            let mut model: Vec<&[u8]> = vec![];
            let mut rest = hay;
            loop {
                match naive_find(rest, nb) {
                    Some(i) => {
                        model.push(&rest[..i]);
                        rest = &rest[i + nb.len()..];
                    }
                    None => {
                        model.push(rest);
                        break;
                    }
                }
            }
            let got: Vec<&[u8]> = h.split(needle).take(hay.len() + 3).map(|x| x.as_bytes()).collect();
            if got != model {
                bad!("ext:split", "split gives {} pieces, model {}", got.len(), model.len());
            }
            if mf.is_some() {
                st.count("ext.needle_found");
            } else {
                st.count("ext.needle_absent");
            }
            match h.try_str() {
                Ok(s) if std::str::from_utf8(hay).ok() == Some(s) => {}
                Err(e) if std::str::from_utf8(hay).err().map(|m| m.valid_up_to()) == Some(e.valid_up_to()) => {}
                _ => bad!("ext:try_str", "try_str disagrees with from_utf8"),
            }
        }
    }));
    if r.is_err() {
        st.violation("panic:ext", format!("panic in OsStrExt on haystack {}", hex(hay)));
    }
}

// ------------------------------------------------------------ C14: RawArgs cursor vs list+index model

#[derive(Clone, Debug)]
enum Op {
    Next(usize),
    NextOs(usize),
    Peek(usize),
    PeekOs(usize),
    IsEnd(usize),
    Remaining(usize),
    Seek(usize, i8, i64), // cursor, whence(0 start,1 cur,2 end), offset
    Insert(usize, usize),
    CloneCursor,
    Compare,
}

const OFFSETS: [i64; 13] = [0, 1, -1, 2, -2, 3, -3, 100, -100, i64::MIN, i64::MAX, i64::MIN + 1, -4];

/// (items in the raw argument list, operations): mostly small; one history in twelve is long
/// and over a long list
fn history_size(rng: &mut Rng) -> (usize, usize) {
    if rng.below(12) == 0 {
        (rng.below(70), 1 + rng.below(300))
    } else {
        (rng.below(4), 1 + rng.below(40))
    }
}

fn gen_ops(rng: &mut Rng, n: usize) -> Vec<Op> {
    (0..n)
        .map(|_| {
            let c = rng.below(2);
            match rng.below(14) {
                0 | 1 => Op::Next(c),
                2 | 3 => Op::NextOs(c),
                4 => Op::Peek(c),
                5 => Op::PeekOs(c),
                6 => Op::IsEnd(c),
                7 => Op::Remaining(c),
                8 | 9 | 10 => Op::Seek(c, rng.below(3) as i8, OFFSETS[rng.below(OFFSETS.len())]),
                11 => Op::Insert(c, rng.below(3)),
                12 => Op::CloneCursor,
                _ => Op::Compare,
            }
        })
        .collect()
}

fn clamp_i128(v: i128, len: usize) -> usize {
    v.max(0).min(len as i128) as usize
}

fn run_history(nitems: usize, ops: &[Op], st: &mut Stats) {
    let desc = format!("items={} ops={:?}", nitems, ops);
    let r = catch_unwind(AssertUnwindSafe(|| {
        let mut next_id = 0usize;
        let mut fresh = |k: usize| -> Vec<Vec<u8>> {
            (0..k)
                .map(|_| {
                    next_id += 1;
                    // contents vary with the id: empty strings, bare dashes, escapes, non-UTF-8
                    match next_id % 13 {
                        3 | 8 => Vec::new(),
                        5 => b"--".to_vec(),
                        6 => b"-".to_vec(),
                        10 => {
                            let mut v = vec![0xFF];
                            v.extend_from_slice(format!("{}", next_id).as_bytes());
                            v
                        }
                        11 => format!("--item{}=", next_id).into_bytes(),
                        _ => format!("item{}", next_id).into_bytes(),
                    }
                })
                .collect()
        };
        let mut model: Vec<Vec<u8>> = fresh(nitems);
        let mut raw = RawArgs::new(model.iter().map(|b| os(b)));
        let mut cur = [raw.cursor(), raw.cursor()];
        let mut idx = [0usize, 0usize];
        for (step, op) in ops.iter().enumerate() {
            st.evaluations += 1;
            macro_rules! bad {
                ($sig:expr, $($fmt:tt)*) => {{ st.violation($sig, format!("step {} {:?}: {} | {}", step, op, format!($($fmt)*), desc)); return; }};
            }
            match op {
                Op::Next(c) | Op::NextOs(c) => {
                    let got: Option<Vec<u8>> = if matches!(op, Op::Next(_)) {
                        raw.next(&mut cur[*c]).map(|a| a.to_value_os().as_bytes().to_vec())
                    } else {
                        raw.next_os(&mut cur[*c]).map(|a| a.as_bytes().to_vec())
                    };
                    let exp = model.get(idx[*c]).cloned();
                    if got != exp {
                        bad!("cursor:next", "got {:?} expected {:?}", got.map(|g| hex(&g)), exp.map(|g| hex(&g)));
                    }
                    if idx[*c] < model.len() {
                        idx[*c] += 1;
                    } else {
                        st.count("cursor.next_at_end");
                    }
                }
                Op::Peek(c) | Op::PeekOs(c) => {
                    let got: Option<Vec<u8>> = if matches!(op, Op::Peek(_)) {
                        raw.peek(&cur[*c]).map(|a| a.to_value_os().as_bytes().to_vec())
                    } else {
                        raw.peek_os(&cur[*c]).map(|a| a.as_bytes().to_vec())
                    };
                    let exp = model.get(idx[*c]).cloned();
                    if got != exp {
                        bad!("cursor:peek", "got {:?} expected {:?}", got.map(|g| hex(&g)), exp.map(|g| hex(&g)));
                    }
                }
                Op::IsEnd(c) => {
                    if raw.is_end(&cur[*c]) != (idx[*c] >= model.len()) {
                        bad!("cursor:is_end", "is_end={} model idx={} len={}", raw.is_end(&cur[*c]), idx[*c], model.len());
                    }
                }
                Op::Remaining(c) => {
                    let got: Vec<Vec<u8>> = raw.remaining(&mut cur[*c]).map(|a| a.as_bytes().to_vec()).collect();
                    let exp: Vec<Vec<u8>> = model[idx[*c]..].to_vec();
                    if got != exp {
                        bad!("cursor:remaining", "got {} items expected {}", got.len(), exp.len());
                    }
                    idx[*c] = model.len();
                    st.count("cursor.remaining");
                }
                Op::Seek(c, whence, off) => {
                    let len = model.len();
                    let (pos, m) = match whence {
                        0 => {
                            let p = *off as u64; // negative offsets wrap to huge positions on purpose
                            (SeekFrom::Start(p), (p as u128).min(len as u128) as usize)
                        }
                        1 => (SeekFrom::Current(*off), clamp_i128(idx[*c] as i128 + *off as i128, len)),
                        _ => (SeekFrom::End(*off), clamp_i128(len as i128 + *off as i128, len)),
                    };
                    raw.seek(&mut cur[*c], pos);
                    idx[*c] = m;
                    st.count("cursor.seek");
                    // observable position == model position
                    let got = raw.peek_os(&cur[*c]).map(|a| a.as_bytes().to_vec());
                    if got != model.get(m).cloned() {
                        bad!("cursor:seek", "after seek peek={:?} model idx {} of {}", got.map(|g| hex(&g)), m, len);
                    }
                }
                Op::Insert(c, k) => {
                    let items = fresh(*k);
                    let at = idx[*c];
                    // `insert` takes any IntoIterator: exact-size, with a size hint of 0, and with a
                    // size hint below the real length (chosen from the state, so replays agree)
                    match (at + *k + model.len()) % 3 {
                        0 => raw.insert(&cur[*c], items.iter().map(|b| os(b))),
                        1 => {
                            raw.insert(&cur[*c], items.iter().map(|b| os(b)).filter(|_| true));
                            st.count("cursor.insert-inexact-size-hint");
                        }
                        _ => {
                            let mut it = items.iter().map(|b| os(b));
                            let first = it.next();
                            raw.insert(&cur[*c], first.into_iter().chain(it.filter(|_| true)));
                            st.count("cursor.insert-inexact-size-hint");
                        }
                    }
                    for (j, it) in items.into_iter().enumerate() {
                        model.insert(at + j, it);
                    }
                    // the other cursor is a plain index too: it does not move
                    st.count("cursor.insert");
                }
                Op::CloneCursor => {
                    cur[1] = cur[0].clone();
                    idx[1] = idx[0];
                }
                Op::Compare => {
                    let got = cur[0].cmp(&cur[1]);
                    let exp = idx[0].cmp(&idx[1]);
                    if got != exp {
                        bad!("cursor:ordering", "cursor ordering {:?} but model {:?} ({} vs {})", got, exp, idx[0], idx[1]);
                    }
                }
            }
        }
        // final: both cursors see exactly the model's suffix
        for c in 0..2 {
            let got: Vec<Vec<u8>> = raw.remaining(&mut cur[c]).map(|a| a.as_bytes().to_vec()).collect();
            if got != model[idx[c]..].to_vec() {
                st.violation("cursor:final-remaining", format!("cursor {} final remaining differs | {}", c, desc));
            }
        }
    }));
    if r.is_err() {
        st.violation("panic:cursor", format!("panic during history | {}", desc));
    }
}

/// exhaustive histories over a reduced op set: next_os, peek_os, remaining, seek(cur,-1), seek(end,0), insert(1)
fn exhaustive_histories(maxlen: usize, shard: usize, nshards: usize, st: &mut Stats) {
    let opset: Vec<Op> = vec![
        Op::NextOs(0),
        Op::PeekOs(0),
        Op::Remaining(0),
        Op::Seek(0, 1, -1),
        Op::Seek(0, 2, 0),
        Op::Seek(0, 0, 1),
        Op::Insert(0, 1),
        Op::IsEnd(0),
    ];
    let mut idx = 0u64;
    for nitems in 0..=2usize {
        for len in 1..=maxlen {
            let total = (opset.len() as u64).pow(len as u32);
            for code in 0..total {
                if (idx % nshards as u64) as usize == shard {
                    let mut c = code;
                    let ops: Vec<Op> = (0..len)
                        .map(|_| {
                            let o = opset[(c % opset.len() as u64) as usize].clone();
                            c /= opset.len() as u64;
                            o
                        })
                        .collect();
                    st.cur_replay = format!("--hist {}:{}:{}", nitems, len, code);
                    run_history(nitems, &ops, st);
                    st.distinct += 1;
                }
                idx += 1;
            }
        }
    }
}

fn main() {
    let args: Vec<String> = std::env::args().collect();
    let prop = args.get(1).cloned().unwrap_or_default();
    let mut seed = 1u64;
    let mut shard = 0usize;
    let mut nshards = 1usize;
    let mut maxlen = 3usize;
    let mut random = 1000usize;
    let mut longcap = 4096usize;
    let mut one: Option<Vec<u8>> = None;
    let mut case_seed: Option<u64> = None;
    let mut hist: Option<String> = None;
    let mut i = 2;
    while i < args.len() {
        let v = args.get(i + 1).cloned().unwrap_or_default();
        match args[i].as_str() {
            "--seed" => seed = v.parse().unwrap(),
            "--shard" => shard = v.parse().unwrap(),
            "--nshards" => nshards = v.parse().unwrap(),
            "--maxlen" => maxlen = v.parse().unwrap(),
            "--random" => random = v.parse().unwrap(),
            "--longcap" => longcap = v.parse().unwrap(),
            "--one" => one = Some(unhex(&v)),
            "--case-seed" => case_seed = Some(v.parse().unwrap()),
            "--hist" => hist = Some(v),
            x => {
                eprintln!("unknown arg {x}");
                std::process::exit(64);
            }
        }
        i += 2;
    }
    std::panic::set_hook(Box::new(|_| {}));
    let mut st = Stats::default();
    let base = mix(seed, if prop == "c13" { 13 } else { 14 });
    match prop.as_str() {
        "c13" => {
            let mut rng = Rng::new(mix(base, shard as u64));
            if let Some(b) = one {
                check_c13(&b, &mut st, &mut rng);
            } else {
                let n = enumerate(maxlen, shard, nshards, |b| {
                    check_c13(b, &mut st, &mut rng);
                });
                st.distinct += n;
                *st.counters.entry("exhaustive.strings".into()).or_insert(0) += n;
                for k in 0..random {
                    let b = if k % 8 == 7 {
                        st.count("random.long-strings");
                        long_bytes(&mut rng, longcap)
                    } else {
                        random_bytes(&mut rng, 24)
                    };
                    if k < 3 {
                        st.samples.push(format!("random bytes {}", hex(&b)));
                    }
                    check_c13(&b, &mut st, &mut rng);
                    st.distinct += 1;
                    st.count("random.strings");
                }
            }
        }
        "c14" => {
            if let Some(b) = one {
                check_ext(&b, &mut st);
            } else if let Some(h) = hist {
                let p: Vec<u64> = h.split(':').map(|x| x.parse().unwrap()).collect();
                // re-derive the history from its code
                let opset: Vec<Op> = vec![
                    Op::NextOs(0),
                    Op::PeekOs(0),
                    Op::Remaining(0),
                    Op::Seek(0, 1, -1),
                    Op::Seek(0, 2, 0),
                    Op::Seek(0, 0, 1),
                    Op::Insert(0, 1),
                    Op::IsEnd(0),
                ];
                let mut c = p[2];
                let ops: Vec<Op> = (0..p[1])
                    .map(|_| {
                        let o = opset[(c % opset.len() as u64) as usize].clone();
                        c /= opset.len() as u64;
                        o
                    })
                    .collect();
                st.cur_replay = format!("--hist {}", h);
                run_history(p[0] as usize, &ops, &mut st);
            } else if let Some(cs) = case_seed {
                let mut rng = Rng::new(cs);
                let (nitems, n) = history_size(&mut rng);
                let ops = gen_ops(&mut rng, n);
                st.cur_replay = format!("--case-seed {}", cs);
                run_history(nitems, &ops, &mut st);
            } else {
                let n = enumerate(maxlen, shard, nshards, |b| check_ext(b, &mut st));
                st.distinct += n;
                *st.counters.entry("exhaustive.haystacks".into()).or_insert(0) += n;
                let mut rng = Rng::new(mix(base, shard as u64));
                for k in 0..random {
                    let b = if k % 8 == 7 {
                        st.count("random.long-haystacks");
                        long_bytes(&mut rng, longcap)
                    } else {
                        random_bytes(&mut rng, 16)
                    };
                    check_ext(&b, &mut st);
                    st.distinct += 1;
                    let cs = mix(base, ((shard as u64) << 40) | k as u64);
                    let mut r2 = Rng::new(cs);
                    let (nitems, n) = history_size(&mut r2);
                    let ops = gen_ops(&mut r2, n);
                    if k < 2 {
                        st.samples.push(format!("history items={} ops={:?}", nitems, &ops[..ops.len().min(8)]));
                    }
                    st.cur_replay = format!("--case-seed {}", cs);
                    run_history(nitems, &ops, &mut st);
                    st.distinct += 1;
                    st.count("random.histories");
                }
                // exhaustive short histories (length bound scales with maxlen)
                exhaustive_histories(maxlen.min(5), shard, nshards, &mut st);
            }
        }
        _ => {
            eprintln!("usage: lexmon c13|c14 …");
            std::process::exit(64);
        }
    }
    if st.samples.is_empty() {
        st.samples.push(format!("exhaustive strings over alphabet {:02x?} up to length {}", ALPHA, maxlen));
    }
    println!("{}", st.json(&prop.to_uppercase(), shard));
    std::process::exit(if st.violations.is_empty() { 0 } else { 1 });
}
