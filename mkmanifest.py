#!/usr/bin/python3
"""Regenerates MANIFEST.json from props.py (the single source of per-property configuration)."""
import json, os, sys
ROOT = os.path.dirname(os.path.abspath(__file__))
sys.path.insert(0, ROOT)
from props import PROPS

ids = [json.loads(l)["id"] for l in open(os.path.join(ROOT, "properties.jsonl"))]
checks, na = [], []
for pid in ids:
    c = PROPS.get(pid)
    if c is None or c.get("unclaimed"):
        na.append({"property_id": pid, "reason": (c or {}).get("unclaimed", "monitor not built yet in this tree (planned: DESIGN.md section 4)")})
        continue
    checks.append({
        "property_id": pid,
        "quick_cmd": "./check %s quick" % pid,
        "thorough_cmd": "./check %s thorough" % pid,
        "evidence_file": "/verif/evidence/%s.json" % pid,
        "replay_cmd_template": "./check %s --replay {path}" % pid,
        "engine": c.get("engine", "mon"),
        "level_claimed": {"category": "exploration", "text": c["level_text"], "design_ref": "DESIGN.md section 4, " + pid},
        "level_note": c["level_note"],
        "technique": c["technique"],
    })
m = {
    "version": 1,
    "setup_cmd": "./check --setup",
    "hooks": {
        "guard": "clap_verif",
        "enable": "no hooks are compiled into /repo: every monitor observes the public API; the guard name is reserved and unused",
        "baseline_off_cmd": "/verif/baseline.sh",
        "source_commits": [],
        "add_only": True,
    },
    "engines": [
        {"name": "mon", "path": "/verif/harness", "serves_properties": [c["property_id"] for c in checks if c["engine"] == "mon"],
         "kind_free_text": "Rust harness linked against /repo's crates (debug-assertions + overflow-checks on), 16 process shards, oracles per property; python3 runner /verif/check aggregates, confirms each violation in a fresh process, applies known_findings.json and writes evidence"},
        {"name": "lexmon", "path": "/verif/lexmon", "serves_properties": [c["property_id"] for c in checks if c["engine"] != "mon"],
         "kind_free_text": "clap_lex-only workload with byte-level reference models; run natively, under Miri (cargo +nightly miri run) and under valgrind memcheck"},
    ],
    "checks": checks,
    "not_applicable": na,
    "notes": "Exit codes of every command: 0 held on what was observed, 1 VIOLATION (line printed), 2 INCONCLUSIVE (never folded into the others). known_findings.json is read-only at run time.",
}
json.dump(m, open(os.path.join(ROOT, "MANIFEST.json"), "w"), indent=1)
print("claimed:", [c["property_id"] for c in checks])
print("not_applicable:", [n["property_id"] for n in na])
