#!/bin/bash
# usage: verify_seed.sh <name> <patch.diff> <demo.rs> [cargo test extra args for the demo, e.g. "--features env"]
# Verifies in a scratch worktree of /repo: demo passes unpatched, fails patched, full baseline passes patched.
set -u
# env: DEMO_PKG (default clap), DEMO_DIR (default tests; relative to the worktree, e.g. clap_lex/tests)
name=$1; patch=$(readlink -f $2); demo=$(readlink -f $3); extra=${4:-}
pkg=${DEMO_PKG:-clap}; ddir=${DEMO_DIR:-tests}
wt=/tmp/wtv/$name
rm -rf $wt; mkdir -p /tmp/wtv
git -C /repo worktree add --detach $wt HEAD >/dev/null 2>&1 || { echo "worktree failed"; exit 2; }
cp $demo $wt/$ddir/seed_demo.rs
cd $wt
echo "== demo on unmodified tree"
CARGO_NET_OFFLINE=true cargo test --offline -p $pkg --test seed_demo $extra 2>&1 | grep -E "^test result|error(\[|:)" | head -5
if ! git apply $patch; then echo "PATCH DOES NOT APPLY"; cd /; git -C /repo worktree remove --force $wt; exit 2; fi
echo "== demo with the change"
CARGO_NET_OFFLINE=true cargo test --offline -p $pkg --test seed_demo $extra 2>&1 | grep -E "^test result|error(\[|:)" | head -5
echo "== baseline with the change (demo file removed)"
rm -f $ddir/seed_demo.rs
CARGO_NET_OFFLINE=true cargo nextest run --workspace --no-fail-fast --tool-config-file pb:/w/lib/nextest.toml --profile pb --test-threads 16 --offline 2>&1 | grep -E "Summary|FAIL|error(\[|:)" | head -10
cd /
git -C /repo worktree remove --force $wt
echo "== done $name"
